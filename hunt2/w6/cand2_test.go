package main

// Candidate 2 (property C20) - copy into cmd/console/ and run
//
//	go test -vet=off -count=1 -run TestCand2 ./cmd/console/
//
// The SQL scanner skips /* ... */ and // comments, and the engine executes
// statements that contain them. splitStatements (go_terminal.go) knows about
// quoted literals only: a ; inside a comment ends a statement, and a quote
// character inside a comment opens a "literal".
//
//  a. "INSERT INTO t VALUES (1) /* ; INSERT INTO t VALUES (2); */;" is one
//     statement that inserts one row. The console hands over three pieces:
//     `INSERT INTO t VALUES (1) /* ;` (executed: the scanner reports the
//     unterminated comment on stderr only), ` INSERT INTO t VALUES (2);` (the
//     commented-out statement - executed) and `*/;` (syntax error).
//  b. "INSERT INTO t VALUES (3); // don't forget" followed by Enter and a second
//     line "INSERT INTO t VALUES (4);" + Enter: the apostrophe in the comment
//     opens a literal for the console, so the second statement is never
//     submitted as a statement (nothing at all is submitted until another '
//     is typed).

import (
	"io"
	"os"
	"strings"
	"testing"

	"github.com/mk6i/mkdb/engine"
	"github.com/mk6i/mkdb/sql"
	"github.com/mk6i/mkdb/storage"
)

type cand2RW struct {
	io.Reader
	io.Writer
}

func cand2Console(t *testing.T, sess *engine.Session, typed string) (submitted []string) {
	t.Helper()
	term := NewTerminal(cand2RW{strings.NewReader(typed), io.Discard}, "")
	for {
		lines, err := term.ReadLine()
		if err != nil {
			return submitted
		}
		for _, q := range lines {
			submitted = append(submitted, q)
			if err := sess.ExecQuery(q); err != nil {
				t.Logf("error: %s", err)
			}
		}
	}
}

func cand2Vals(t *testing.T, sess *engine.Session, table string) []int64 {
	t.Helper()
	sess.RelationService.StartTxn()
	rows, _, err := sess.RelationService.Fetch(table)
	sess.RelationService.EndTxn()
	if err != nil {
		t.Fatal(err)
	}
	var vals []int64
	for _, r := range rows {
		vals = append(vals, r.Vals[0].(int64))
	}
	return vals
}

func TestCand2SemicolonInsideBlockComment(t *testing.T) {
	if err := os.Chdir(t.TempDir()); err != nil {
		t.Fatal(err)
	}
	if err := storage.InitStorage(); err != nil {
		t.Fatal(err)
	}
	sess := &engine.Session{}
	defer sess.Close()

	stmt := "INSERT INTO t VALUES (1) /* ; INSERT INTO t VALUES (2); */;"
	submitted := cand2Console(t, sess, "CREATE DATABASE d;\rUSE d;\rCREATE TABLE t (a INT);\rCREATE TABLE c (a INT);\r"+stmt+"\r")
	t.Logf("submitted: %q", submitted)

	// control: the engine, given the statement as typed, inserts one row. (if
	// the dialect had no comments the text would not be one statement and
	// there is nothing to compare with.)
	if err := sess.ExecQuery(strings.ReplaceAll(stmt, " t ", " c ")); err != nil {
		t.Skipf("the engine refuses the statement: %v", err)
	}
	if got := cand2Vals(t, sess, "c"); len(got) != 1 || got[0] != 1 {
		t.Fatalf("control: c holds %v, want [1]", got)
	}

	if got := cand2Vals(t, sess, "t"); len(got) != 1 || got[0] != 1 {
		t.Errorf("one statement typed that inserts the row 1; t holds %v (the commented-out INSERT was executed)", got)
	}
	if n := len(submitted) - 4; n != 1 {
		t.Errorf("one statement typed, %d handed to the engine: %q", n, submitted[4:])
	}
}

func TestCand2QuoteInsideLineComment(t *testing.T) {
	// only meaningful while the scanner knows comments
	probe := sql.NewTokenScanner(strings.NewReader("// x"))
	if probe.Next() {
		t.Skip("the dialect has no // comments")
	}
	typed := "INSERT INTO t VALUES (3); // don't forget\r" +
		"INSERT INTO t VALUES (4);\r"
	term := NewTerminal(cand2RW{strings.NewReader(typed), io.Discard}, "")
	var submitted []string
	for {
		lines, err := term.ReadLine()
		if err != nil {
			break
		}
		submitted = append(submitted, lines...)
	}
	// two statements were typed, each ended by ; and Enter
	found := false
	for _, s := range submitted {
		if s == "INSERT INTO t VALUES (4);" {
			found = true
		}
	}
	if !found {
		t.Fatalf("typed two INSERT statements on two lines; handed to the engine: %q", submitted)
	}
}
