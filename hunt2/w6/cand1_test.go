package main

// Candidate 1 (property C20) - copy into cmd/console/ and run
//
//	go test -vet=off -count=1 -run TestCand1 ./cmd/console/
//
// A statement typed over two lines with a // comment at the end of the first
// line. The SQL scanner skips // comments up to the end of the LINE (and the
// engine executes such statements). The console replaces the line break by a
// space before it hands the statement over, so the comment now runs to the end
// of the STATEMENT and swallows the WHERE clause that was typed on the second
// line: "DELETE FROM t // only the old rows<Enter>WHERE a < 10;" is executed
// as DELETE FROM t and removes every row.

import (
	"io"
	"os"
	"strings"
	"testing"

	"github.com/mk6i/mkdb/engine"
	"github.com/mk6i/mkdb/storage"
)

type cand1RW struct {
	io.Reader
	io.Writer
}

// cand1Console runs the loop of runTerminal (main.go) over the typed bytes.
func cand1Console(t *testing.T, sess *engine.Session, typed string) (submitted []string) {
	t.Helper()
	term := NewTerminal(cand1RW{strings.NewReader(typed), io.Discard}, "")
	for {
		lines, err := term.ReadLine()
		if err != nil {
			return submitted
		}
		for _, q := range lines {
			submitted = append(submitted, q)
			if err := sess.ExecQuery(q); err != nil {
				t.Logf("error: %s", err)
			}
		}
	}
}

func TestCand1LineCommentSwallowsNextLine(t *testing.T) {
	if err := os.Chdir(t.TempDir()); err != nil {
		t.Fatal(err)
	}
	if err := storage.InitStorage(); err != nil {
		t.Fatal(err)
	}
	sess := &engine.Session{}
	defer sess.Close()

	// Enter is \r on a terminal in raw mode
	typed := "CREATE DATABASE d;\r" +
		"USE d;\r" +
		"CREATE TABLE t (a INT);\r" +
		"INSERT INTO t VALUES (1), (5), (20), (30);\r" +
		"DELETE FROM t // only the old rows\r" +
		"WHERE a < 10;\r"
	submitted := cand1Console(t, sess, typed)
	t.Logf("submitted: %q", submitted)

	// control: the same statement with its line break intact, given to the
	// engine directly, deletes only the rows below 10 (a dialect without
	// comments would refuse it and delete nothing)
	for _, q := range []string{"CREATE TABLE c (a INT);", "INSERT INTO c VALUES (1), (5), (20), (30);"} {
		if err := sess.ExecQuery(q); err != nil {
			t.Fatalf("%s: %v", q, err)
		}
	}
	if err := sess.ExecQuery("DELETE FROM c // only the old rows\nWHERE a < 10;"); err != nil {
		t.Logf("control: the engine refuses the statement: %v", err)
	} else {
		sess.RelationService.StartTxn()
		crows, _, err := sess.RelationService.Fetch("c")
		sess.RelationService.EndTxn()
		if err != nil || len(crows) != 2 {
			t.Fatalf("control: rows left in c: %d (%v), want 2", len(crows), err)
		}
	}

	sess.RelationService.StartTxn()
	rows, _, err := sess.RelationService.Fetch("t")
	sess.RelationService.EndTxn()
	if err != nil {
		t.Fatal(err)
	}
	var left []int64
	for _, r := range rows {
		left = append(left, r.Vals[0].(int64))
	}
	// the statement that was typed deletes the rows with a < 10 (or, if the
	// dialect had no comments, is refused and deletes nothing). in both cases
	// 20 and 30 are still there.
	if len(left) < 2 {
		t.Fatalf("typed DELETE ... WHERE a < 10 on two lines; rows left in t: %v, want at least [20 30]", left)
	}
}
