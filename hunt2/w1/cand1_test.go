package engine

// Candidate 1 (property C08): a value that is not written as a quoted literal
// and is not an integer - a decimal number (1.5, 1e3, .5), a Go raw string
// (`abc`, back quotes included) or a stray character (#, @, -) - is not
// refused. The scanner classifies every token it does not know as a string
// literal, so INSERT and UPDATE store it, as text, in a VARCHAR column, while
// the integer 1 in the same place is refused with "types do not match".
//
// Copy to:  engine/cand1_test.go
// Run with: export GOFLAGS=-mod=mod GOPROXY=off GOSUMDB=off GOTOOLCHAIN=local
//           go test -vet=off -count=1 -run TestCand1 ./engine/

import (
	"os"
	"testing"

	"github.com/mk6i/mkdb/sql"
	"github.com/mk6i/mkdb/storage"
)

func TestCand1UnquotedNonIntegerValueIsStoredAsText(t *testing.T) {
	storage.ClearDataDir()
	defer storage.ClearDataDir()

	// the engine prints its progress to stdout
	stdout := os.Stdout
	if null, err := os.OpenFile(os.DevNull, os.O_WRONLY, 0); err == nil {
		os.Stdout = null
		defer func() { os.Stdout = stdout; null.Close() }()
	}

	s := &Session{}
	defer s.Close()
	for _, q := range []string{
		`CREATE DATABASE cand1`,
		`USE cand1`,
		`CREATE TABLE t (id INT, s VARCHAR(20))`,
		`INSERT INTO t VALUES (1, 'one')`,
	} {
		if err := s.ExecQuery(q); err != nil {
			t.Fatalf("%s: %v", q, err)
		}
	}

	// control: a number in a VARCHAR column is a value of the wrong type
	if err := s.ExecQuery(`INSERT INTO t (id, s) VALUES (2, 1)`); err == nil {
		t.Fatalf("control: the integer 1 was accepted for a VARCHAR column")
	}
	if err := s.ExecQuery(`UPDATE t SET s = 1 WHERE id = 1`); err == nil {
		t.Fatalf("control: UPDATE accepted the integer 1 for a VARCHAR column")
	}

	// none of these is a string literal; each must be refused
	stmts := []string{
		"INSERT INTO t (id, s) VALUES (3, 1.5)",
		"INSERT INTO t (id, s) VALUES (4, 1e3)",
		"INSERT INTO t (id, s) VALUES (5, .5)",
		"INSERT INTO t (id, s) VALUES (6, `abc`)",
		"INSERT INTO t (id, s) VALUES (7, #)",
		"UPDATE t SET s = 2.5 WHERE id = 1",
	}
	for _, q := range stmts {
		if err := s.ExecQuery(q); err == nil {
			t.Errorf("accepted: %s", q)
		}
	}

	stmt, err := parseSQL(`SELECT id, s FROM t`)
	if err != nil {
		t.Fatal(err)
	}
	rows, _, err := EvaluateSelect(stmt.(sql.Select), s.RelationService)
	if err != nil {
		t.Fatal(err)
	}
	if len(rows) != 1 || rows[0].Vals[1] != "one" {
		for _, r := range rows {
			t.Errorf("table t now holds id=%v s=%q", r.Vals[0], r.Vals[1])
		}
		t.Errorf("expected the single row (1, 'one'): every other statement had to be refused")
	}
}
