// Candidate 2 (csvimport crashes when the destination table's name contains a
// single quote, e.g. the legitimate table "it's").
//
// Copy to cmd/csvimport/cand2_test.go and run
//
//	go test -vet=off -count=1 -run TestCand2 ./cmd/csvimport
//
// TestCand2Main runs the real main() in a child process (the test binary
// re-executed) in a scratch directory and fails because nothing is imported:
// the import goroutine panics with "index out of range [0] with length 0" on
// the first CSV record; its deferred close() calls let main() return at the
// same time, so the process either dies with the panic trace (exit status 2)
// or ends in silence with exit status 0 - whichever goroutine is faster.
// TestCand2Config shows the cause in-process.
package main

import (
	"fmt"
	"os"
	"os/exec"
	"strings"
	"testing"

	"github.com/mk6i/mkdb/engine"
	"github.com/mk6i/mkdb/sql"
	"github.com/mk6i/mkdb/storage"
)

const cand2Table = `it's`

func cand2Setup(t *testing.T) {
	dir := t.TempDir()
	if err := os.Chdir(dir); err != nil {
		t.Fatal(err)
	}
	if err := storage.InitStorage(); err != nil {
		t.Fatal(err)
	}
	s := &engine.Session{}
	for _, q := range []string{
		`CREATE DATABASE d`,
		`USE d`,
		`CREATE TABLE "` + cand2Table + `" (a int, b varchar(10))`,
		`INSERT INTO "` + cand2Table + `" VALUES (1, 'sql')`, // SQL can use the table
	} {
		if err := s.ExecQuery(q); err != nil {
			t.Fatalf("%s: %v", q, err)
		}
	}
	if err := s.Close(); err != nil {
		t.Fatal(err)
	}
}

func cand2Rows(t *testing.T) []string {
	if err := storage.InitStorage(); err != nil {
		t.Fatal(err)
	}
	rs, err := storage.OpenRelation("d", true)
	if err != nil {
		t.Fatal(err)
	}
	defer rs.Close()
	ts := sql.NewTokenScanner(strings.NewReader(`SELECT a, b FROM "` + cand2Table + `"`))
	tl := sql.TokenList{}
	for ts.Next() {
		tl.Add(ts.Cur())
	}
	p := sql.Parser{TokenList: tl}
	q, err := p.Parse()
	if err != nil {
		t.Fatal(err)
	}
	rows, _, err := engine.EvaluateSelect(q.(sql.Select), rs)
	if err != nil {
		t.Fatal(err)
	}
	var out []string
	for _, r := range rows {
		out = append(out, fmt.Sprintf("%v %v", r.Vals[0], r.Vals[1]))
	}
	return out
}

func TestCand2Main(t *testing.T) {
	if os.Getenv("CAND2_CHILD") == "1" {
		// the real program: main() with its command line, CSV on stdin
		os.Args = []string{"csvimport", "-db", "d", "-table", cand2Table, "-dest-cols", "a,b", "-src-cols", "0,1"}
		main()
		os.Exit(0)
	}

	cand2Setup(t)

	cmd := exec.Command(os.Args[0], "-test.run=^TestCand2Main$")
	cmd.Env = append(os.Environ(), "CAND2_CHILD=1")
	cmd.Stdin = strings.NewReader("2,two\n3,three\n")
	out, err := cmd.CombinedOutput()
	if os.Getenv("CAND2_VERBOSE") != "" {
		t.Logf("child output:\n%s", out)
	}
	if err != nil {
		tail := string(out)
		if i := strings.Index(tail, "panic:"); i >= 0 {
			tail = tail[i:]
		}
		if len(tail) > 700 {
			tail = tail[:700]
		}
		t.Errorf("csvimport -table %q died: %v\n%s", cand2Table, err, tail)
	} else if !strings.Contains(string(out), "inserted") && !strings.Contains(strings.ToLower(string(out)), "err") {
		t.Errorf("csvimport -table %q ended with exit status 0 and reported neither a record nor an error; its output:\n%s", cand2Table, out)
	}
	got := cand2Rows(t)
	want := []string{"1 sql", "2 two", "3 three"}
	if fmt.Sprint(got) != fmt.Sprint(want) {
		t.Errorf("table after the import: %q, want %q", got, want)
	}
}

func TestCand2Config(t *testing.T) {
	cand2Setup(t)
	rs, err := storage.OpenRelation("d", true)
	if err != nil {
		t.Fatal(err)
	}
	defer rs.Close()

	types, err := colDataTypes(rs, cand2Table, []string{"a", "b"})
	if err != nil {
		return // an error would be fine: main() prints it and exits
	}
	if len(types) != 2 {
		t.Errorf("colDataTypes(%q) = %v, %v: neither the two column types nor an error", cand2Table, types, err)
	}
	func() {
		defer func() {
			if r := recover(); r != nil {
				t.Errorf("csvToSql with this configuration panics: %v", r)
			}
		}()
		csvToSql(importCfg{colTypes: types, srcCols: []int{0, 1}, dstCols: []string{"a", "b"}, table: cand2Table}, []string{"2", "two"})
	}()
}
