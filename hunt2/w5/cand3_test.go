// Candidate 3 (a long chain of OR / AND terms kills the whole process with
// "fatal error: stack overflow": the statement is parsed and evaluated by
// recursion, one level per term).
//
// Copy to engine/cand3_test.go and run
//
//	go test -vet=off -count=1 -run TestCand3 ./engine
//
// The statements are executed in a child process (the test binary re-executed)
// because a stack overflow is not a panic: it cannot be recovered and ends the
// process. TestCand3Exec needs about 1 GB of memory and 5 s, TestCand3Parse
// about 3 GB and 20 s.
package engine

import (
	"fmt"
	"os"
	"os/exec"
	"strings"
	"testing"

	"github.com/mk6i/mkdb/storage"
)

func cand3Child(t *testing.T, name string, terms int) {
	cmd := exec.Command(os.Args[0], "-test.run=^"+name+"$")
	cmd.Env = append(os.Environ(), fmt.Sprintf("CAND3_TERMS=%d", terms))
	cmd.Dir = t.TempDir()
	out, err := cmd.CombinedOutput()
	if err == nil {
		return
	}
	msg := string(out)
	if i := strings.Index(msg, "runtime: goroutine stack exceeds"); i >= 0 {
		msg = msg[i:]
	}
	if len(msg) > 400 {
		msg = msg[:400]
	}
	t.Fatalf("the process that handled a statement of %d OR-terms (%d bytes) died: %v\n%s", terms, 5*terms, err, msg)
}

// C18: the statement parses, executing it crashes the engine. 2,000,000 terms
// are a 10 MB statement; evaluate/evalOr use 304 bytes of stack per term and
// the Go stack ends at 512 MiB in practice (1.77 million terms).
func TestCand3Exec(t *testing.T) {
	if n := os.Getenv("CAND3_TERMS"); n != "" {
		var terms int
		fmt.Sscan(n, &terms)
		null, _ := os.OpenFile(os.DevNull, os.O_WRONLY, 0)
		os.Stdout = null
		if err := storage.InitStorage(); err != nil {
			t.Fatal(err)
		}
		s := &Session{}
		for _, q := range []string{"CREATE DATABASE d", "USE d", "CREATE TABLE t (a int)", "INSERT INTO t VALUES (1)"} {
			if err := s.ExecQuery(q); err != nil {
				t.Fatal(err)
			}
		}
		stmt := "SELECT * FROM t WHERE " + strings.Repeat("1 OR ", terms) + "a = 1"
		if _, err := parseSQL(stmt); err != nil {
			t.Fatalf("does not parse: %v", err)
		}
		// any result or error is fine (this one is "incompatible type comparison")
		err := s.ExecQuery(stmt)
		fmt.Fprintln(os.Stderr, "statement returned:", err)
		s.Close()
		os.Exit(0)
	}
	cand3Child(t, "TestCand3Exec", 100000) // fine: an error value comes back
	cand3Child(t, "TestCand3Exec", 2000000)
}

// C09: tokenising and parsing alone. The parser needs about 100 bytes of stack
// per term: 5,000,000 terms (25 MB of input) are beyond the limit.
func TestCand3Parse(t *testing.T) {
	if n := os.Getenv("CAND3_TERMS"); n != "" {
		var terms int
		fmt.Sscan(n, &terms)
		stmt := "SELECT * FROM t WHERE " + strings.Repeat("1 OR ", terms) + "a = 1"
		null, _ := os.OpenFile(os.DevNull, os.O_WRONLY, 0)
		os.Stdout = null
		_, err := parseSQL(stmt)
		fmt.Fprintln(os.Stderr, "parser returned:", err)
		os.Exit(0)
	}
	cand3Child(t, "TestCand3Parse", 100000)
	cand3Child(t, "TestCand3Parse", 5000000)
}
