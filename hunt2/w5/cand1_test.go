// Candidate 1 (console hangs for good on ESC followed by 255 bytes without an
// ASCII letter or '~').
//
// Copy to cmd/console/cand1_test.go and run
//
//	go test -vet=off -count=1 -run TestCand1 ./cmd/console
//
// Both tests fail on the unchanged code ("ReadLine hangs"); the looping
// goroutine is left behind and the test binary exits normally.
package main

import (
	"bytes"
	"io"
	"strings"
	"sync/atomic"
	"testing"
	"time"
)

// cand1Input stands for the keyboard: like a terminal (os.File.Read, which
// returns 0, nil for an empty buffer without touching the device) it answers a
// read into an empty buffer with 0, nil, and it counts these reads.
type cand1Input struct {
	r          io.Reader
	emptyReads int64
}

func (c *cand1Input) Read(b []byte) (int, error) {
	if len(b) == 0 {
		atomic.AddInt64(&c.emptyReads, 1)
		return 0, nil
	}
	return c.r.Read(b)
}

func cand1Run(t *testing.T, typed string) {
	in := &cand1Input{r: strings.NewReader(typed)}
	term := NewTerminal(struct {
		io.Reader
		io.Writer
	}{in, &bytes.Buffer{}}, "> ")

	type result struct {
		stmts []string
		err   error
	}
	done := make(chan result, 1)
	go func() {
		stmts, err := term.ReadLine()
		done <- result{stmts, err}
	}()

	select {
	case res := <-done:
		// what exactly is handed over depends on how the stray escape
		// sequence is resolved; the point is that the console is still alive
		t.Logf("ReadLine returned %q, %v", res.stmts, res.err)
	case <-time.After(3 * time.Second):
		t.Fatalf("ReadLine hangs: 3 s after %d bytes (two complete statements at the end) were typed it has not returned; "+
			"it is spinning on reads into an empty buffer (%d so far) and will never look at the keyboard again",
			len(typed), atomic.LoadInt64(&in.emptyReads))
	}
}

// The user hits ESC by accident and then types (or pastes) the value list of a
// long INSERT: digits, commas, parentheses and blanks, no letter among the
// first 255 bytes. The statement that follows is never read.
func TestCand1EscThenValueList(t *testing.T) {
	var values []string
	for i := 100; len(strings.Join(values, ", ")) < 300; i++ {
		values = append(values, "("+strings.Repeat("1", 3)+", "+strings.Repeat("2", 3)+")")
	}
	typed := "\x1b" + strings.Join(values, ", ") + "\r" + "select 1;\r" + "select 2;\r"
	cand1Run(t, typed)
}

// Same with text that is not ASCII at all: ESC, then 90 CJK characters (270
// bytes of UTF-8), then a complete statement.
func TestCand1EscThenNonASCII(t *testing.T) {
	typed := "\x1b" + strings.Repeat("数", 90) + "\r" + "select 1;\r" + "select 2;\r"
	cand1Run(t, typed)
}
