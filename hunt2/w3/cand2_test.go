package engine

// Candidate 2 (C10, seen through C05 and through DELETE/UPDATE): a comment
// that is opened with /* and never closed swallows the rest of the statement.
// The scanner reports "comment not terminated" only through Scanner.error
// (a line on stderr, ErrorCount++), nobody looks at it, the token list simply
// ends there, and the shortened statement is parsed and EXECUTED:
//
//   DELETE FROM t /* WHERE a = 1      deletes every row, returns nil
//   SELECT * FROM t WHERE a = 2 /* AND b = 1     answers WHERE a = 2
//
// Repair c4dbcb2 ("input behind a complete statement is a syntax error, not
// dropped") checks the token list for leftovers, but these tokens never reach
// the list.
//
// Copy to engine/cand2_test.go of the worktree and run
//   export GOFLAGS=-mod=mod GOPROXY=off GOSUMDB=off GOTOOLCHAIN=local
//   go test -vet=off -count=1 -run TestCand2 ./engine
// FAILS on the unchanged code.

import (
	"os"
	"testing"

	"github.com/mk6i/mkdb/sql"
)

func cand2Session(t *testing.T, stmts ...string) *Session {
	t.Helper()
	dir := t.TempDir()
	old, _ := os.Getwd()
	if err := os.Chdir(dir); err != nil {
		t.Fatal(err)
	}
	t.Cleanup(func() { os.Chdir(old) })
	stdout := os.Stdout
	null, _ := os.OpenFile(os.DevNull, os.O_WRONLY, 0)
	os.Stdout = null
	t.Cleanup(func() { os.Stdout = stdout; null.Close() })

	s := &Session{}
	t.Cleanup(func() { s.Close() })
	for _, q := range append([]string{"CREATE DATABASE cand2", "USE cand2"}, stmts...) {
		if err := s.ExecQuery(q); err != nil {
			t.Fatalf("%s: %v", q, err)
		}
	}
	return s
}

func cand2Count(t *testing.T, s *Session) int {
	t.Helper()
	stmt, err := parseSQL("SELECT * FROM t")
	if err != nil {
		t.Fatal(err)
	}
	rows, _, err := EvaluateSelect(stmt.(sql.Select), s.RelationService)
	if err != nil {
		t.Fatal(err)
	}
	return len(rows)
}

func TestCand2UnterminatedCommentDropsTheRestOfTheStatement(t *testing.T) {
	s := cand2Session(t,
		"CREATE TABLE t (a int, b int)",
		"INSERT INTO t VALUES (1, 1), (2, 1), (2, 2), (3, 3)",
	)

	// the parser must refuse the text, as it refuses an unterminated literal
	for _, q := range []string{
		"SELECT * FROM t WHERE a = 2 /* AND b = 1",
		"SELECT * FROM t /* WHERE a = 1",
		"SELECT a, /* b, */ b FROM t /* WHERE a = 1 *",
		"UPDATE t SET b = 9 /* WHERE a = 1",
		"DELETE FROM t /* WHERE a = 1",
	} {
		if stmt, err := parseSQL(q); err == nil {
			t.Errorf("%q: parsed without error as %+v", q, stmt)
		}
	}

	// and the engine must not run the shortened statement
	err := s.ExecQuery("DELETE FROM t /* WHERE a = 1")
	if n := cand2Count(t, s); n != 4 {
		t.Errorf("DELETE FROM t /* WHERE a = 1: returned %v and left %d of 4 rows (the WHERE clause was dropped in silence)", err, n)
	}
}
