package sql

// Candidate 3 (C10, low severity): the parser accepts lists and clauses that
// are visibly cut short - a separator or a clause keyword with nothing behind
// it - and returns the shortened statement without an error. The select list,
// ORDER BY and (since 60925dc) GROUP BY refuse a trailing comma; VALUES rows,
// the values of a row, the INSERT column list, SET assignments and CREATE TABLE
// columns do not, and GROUP BY / LIMIT / OFFSET / VALUES / SET may be followed
// by nothing at all.
//
// Copy to sql/cand3_test.go of the worktree and run
//   export GOFLAGS=-mod=mod GOPROXY=off GOSUMDB=off GOTOOLCHAIN=local
//   go test -vet=off -count=1 -run TestCand3 ./sql
// FAILS on the unchanged code (every text below parses without error).

import (
	"strings"
	"testing"
)

func cand3Parse(q string) (interface{}, error) {
	ts := NewTokenScanner(strings.NewReader(q))
	tl := TokenList{}
	for ts.Next() {
		tl.Add(ts.Cur())
	}
	p := Parser{TokenList: tl}
	return p.Parse()
}

func TestCand3ListsAndClausesCutShortAreAccepted(t *testing.T) {
	// controls: these ARE refused
	for _, q := range []string{
		"SELECT a, FROM t",
		"SELECT a FROM t ORDER BY a,",
		"SELECT a FROM t GROUP BY a,",
	} {
		if _, err := cand3Parse(q); err == nil {
			t.Errorf("control %q: parsed without error", q)
		}
	}

	for _, q := range []string{
		// a comma promises another element
		"INSERT INTO t VALUES (1, 'a'), (2, 'b'),",
		"INSERT INTO t VALUES (1, 'a',)",
		"INSERT INTO t (a, b,) VALUES (1, 'a')",
		"UPDATE t SET a = 1, WHERE b = 2",
		"UPDATE t SET a = 1,",
		"CREATE TABLE t (a int, b int,)",
		// a clause keyword with nothing behind it
		"SELECT a FROM t GROUP BY",
		"SELECT a FROM t GROUP BY ORDER BY a",
		"SELECT a FROM t LIMIT 1 OFFSET 2 OFFSET",
		"SELECT a FROM t LIMIT 1 LIMIT",
		"INSERT INTO t VALUES",
		"UPDATE t SET WHERE a = 1",
		"CREATE TABLE (a int)",
	} {
		if stmt, err := cand3Parse(q); err == nil {
			t.Errorf("%q: parsed without error as %+v", q, stmt)
		}
	}
}
