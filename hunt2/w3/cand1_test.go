package engine

// Candidate 1 (C05 and C07): a QUALIFIED sort key or grouping column (t.b)
// is captured by a select-list ALIAS of the same name that belongs to a
// different column (SELECT a AS b ...), so the query sorts / groups by the
// wrong column without any error.
//
// Copy to engine/cand1_test.go of the worktree and run
//   export GOFLAGS=-mod=mod GOPROXY=off GOSUMDB=off GOTOOLCHAIN=local
//   go test -vet=off -count=1 -run TestCand1 ./engine
// Both tests FAIL on the unchanged code.

import (
	"fmt"
	"os"
	"reflect"
	"testing"

	"github.com/mk6i/mkdb/sql"
)

func cand1Session(t *testing.T, stmts ...string) *Session {
	t.Helper()
	dir := t.TempDir()
	old, _ := os.Getwd()
	if err := os.Chdir(dir); err != nil {
		t.Fatal(err)
	}
	t.Cleanup(func() { os.Chdir(old) })
	// keep the engine's chatter out of the test output
	stdout := os.Stdout
	null, _ := os.OpenFile(os.DevNull, os.O_WRONLY, 0)
	os.Stdout = null
	t.Cleanup(func() { os.Stdout = stdout; null.Close() })

	s := &Session{}
	t.Cleanup(func() { s.Close() })
	for _, q := range append([]string{"CREATE DATABASE cand1", "USE cand1"}, stmts...) {
		if err := s.ExecQuery(q); err != nil {
			t.Fatalf("%s: %v", q, err)
		}
	}
	return s
}

func cand1Select(t *testing.T, s *Session, q string) ([][]interface{}, error) {
	t.Helper()
	stmt, err := parseSQL(q)
	if err != nil {
		return nil, err
	}
	rows, _, err := EvaluateSelect(stmt.(sql.Select), s.RelationService)
	if err != nil {
		return nil, err
	}
	var out [][]interface{}
	for _, r := range rows {
		out = append(out, r.Vals)
	}
	return out, nil
}

// C05: "sorted by the ORDER BY keys". t.b names the table column b (the
// unqualified key b would name the output column, i.e. the alias).
func TestCand1OrderByQualifiedKeyCapturedByAlias(t *testing.T) {
	s := cand1Session(t,
		"CREATE TABLE t (a int, b int)",
		"INSERT INTO t VALUES (1, 30), (2, 20), (3, 10)",
	)

	got, err := cand1Select(t, s, "SELECT a AS b, b AS c FROM t ORDER BY t.b")
	if err != nil {
		// refusing the query would be acceptable
		t.Skipf("refused: %v", err)
	}
	// rows sorted by the table column b: (3,10), (2,20), (1,30)
	want := [][]interface{}{
		{int64(3), int64(10)},
		{int64(2), int64(20)},
		{int64(1), int64(30)},
	}
	if !reflect.DeepEqual(got, want) {
		t.Errorf("SELECT a AS b, b AS c FROM t ORDER BY t.b\n got  %v\n want %v (sorted by column t.b)", got, want)
	}

	// the same with the sort column not selected at all: either refused
	// ("sort field is not in select list", as for any other unselected
	// column) or sorted by t.b - but not silently sorted by a
	got, err = cand1Select(t, s, "SELECT a AS b FROM t ORDER BY t.b")
	if err == nil {
		want = [][]interface{}{{int64(3)}, {int64(2)}, {int64(1)}}
		if !reflect.DeepEqual(got, want) {
			t.Errorf("SELECT a AS b FROM t ORDER BY t.b\n got  %v\n want %v (sorted by column t.b) or an error", got, want)
		}
	}
}

// C07: "exactly one result row per distinct combination of grouping values".
// The grouping column is t.b (3 distinct values); the code groups by a
// (2 distinct values) because the alias of a is spelled b.
func TestCand1GroupByQualifiedColumnCapturedByAlias(t *testing.T) {
	s := cand1Session(t,
		"CREATE TABLE t (a int, b int)",
		"INSERT INTO t VALUES (1, 10), (1, 20), (1, 30), (2, 10)",
	)

	got, err := cand1Select(t, s, "SELECT a AS b, count(*) FROM t GROUP BY t.b")
	if err != nil {
		// standard SQL refuses this query (a is neither grouped nor
		// aggregated); a refusal is fine
		return
	}
	// t.b has the distinct values 10, 20, 30 with 2, 1, 1 rows
	counts := map[string]int{}
	for _, r := range got {
		counts[fmt.Sprint(r[1])]++
	}
	if len(got) != 3 || counts["2"] != 1 || counts["1"] != 2 {
		t.Errorf("SELECT a AS b, count(*) FROM t GROUP BY t.b\n got %v\n want one row per distinct t.b (10, 20, 30: counts 2, 1, 1) or an error", got)
	}
}
