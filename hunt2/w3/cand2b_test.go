package main

// Candidate 2, the way it happens to a user of the console: a COMPLETE and
// valid statement whose /* ... */ comment contains a semicolon.
// splitStatements (go_terminal.go) knows quotes but not comments, so it cuts
// the entry at the semicolon inside the comment; the first piece ends inside
// the comment, the scanner drops everything from "/*" on, and the engine runs
// "DELETE FROM t" - every row is gone. The second piece is refused.
//
// Copy to cmd/console/cand2b_test.go of the worktree and run
//   export GOFLAGS=-mod=mod GOPROXY=off GOSUMDB=off GOTOOLCHAIN=local
//   go test -vet=off -count=1 -run TestCand2 ./cmd/console
// FAILS on the unchanged code.

import (
	"bytes"
	"io"
	"os"
	"testing"

	"github.com/mk6i/mkdb/engine"
	"github.com/mk6i/mkdb/sql"
)

func TestCand2ConsoleCommentWithSemicolonDeletesEverything(t *testing.T) {
	dir := t.TempDir()
	old, _ := os.Getwd()
	if err := os.Chdir(dir); err != nil {
		t.Fatal(err)
	}
	defer os.Chdir(old)
	stdout := os.Stdout
	null, _ := os.OpenFile(os.DevNull, os.O_WRONLY, 0)
	os.Stdout = null
	defer func() { os.Stdout = stdout; null.Close() }()

	typed := "CREATE DATABASE cand2; USE cand2;\r" +
		"CREATE TABLE t (a int, b int);\r" +
		"INSERT INTO t VALUES (1, 1), (2, 1), (2, 2), (3, 3);\r" +
		"DELETE FROM t /* the test row; nothing else */ WHERE a = 1;\r"

	// (reader and writer are kept apart: the terminal echoes what it reads)
	term := NewTerminal(struct {
		io.Reader
		io.Writer
	}{bytes.NewBufferString(typed), io.Discard}, "")
	sess := &engine.Session{}
	defer sess.Close()
	var errs []error
	for {
		stmts, err := term.ReadLine()
		if err != nil {
			break
		}
		// as runTerminal does
		for _, q := range stmts {
			if err := sess.ExecQuery(q); err != nil {
				errs = append(errs, err)
			}
		}
	}

	ts := sql.NewTokenScanner(bytes.NewBufferString("SELECT * FROM t"))
	tl := sql.TokenList{}
	for ts.Next() {
		tl.Add(ts.Cur())
	}
	p := sql.Parser{TokenList: tl}
	stmt, err := p.Parse()
	if err != nil {
		t.Fatal(err)
	}
	rows, _, err := engine.EvaluateSelect(stmt.(sql.Select), sess.RelationService)
	if err != nil {
		t.Fatal(err)
	}
	// the statement deletes one row (or is refused as a whole): 3 or 4 rows
	if len(rows) < 3 {
		t.Errorf("typed: DELETE FROM t /* the test row; nothing else */ WHERE a = 1;\n%d of 4 rows are left (errors reported: %v)", len(rows), errs)
	}
}
