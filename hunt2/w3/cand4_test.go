package main

// Candidate 4 (NOT one of C05/C06/C07/C10 - it belongs to C19 "each record is
// either reported as an error or stored" / C18 "never crashes"; reported
// because repair c4dbcb2 made it reachable): csvimport for a table whose name
// contains a quote dies with a Go panic instead of importing or reporting.
//
// colDataTypes() splices the table name into
//     select field_name, field_type from sys_schema where table_name = '%s'
// and answers a parse error with "return nil, nil" (main.go:173-176): no column
// types and NO error. Before c4dbcb2 the text behind the first quote of the
// name was dropped in silence and the lookup ended in "didn't find column";
// now the text is a syntax error, makeConfig succeeds with colTypes == nil and
// the first record panics in csvToSql (index out of range, main.go:293) inside
// the import goroutine - the process dies without the deferred Close.
//
// Copy to cmd/csvimport/cand4_test.go of the worktree and run
//   export GOFLAGS=-mod=mod GOPROXY=off GOSUMDB=off GOTOOLCHAIN=local
//   go test -vet=off -count=1 -run TestCand4 ./cmd/csvimport
// FAILS on the unchanged code.

import (
	"os"
	"testing"

	"github.com/mk6i/mkdb/engine"
	"github.com/mk6i/mkdb/sql"
	"github.com/mk6i/mkdb/storage"
)

func TestCand4TableNameWithQuotePanicsTheImport(t *testing.T) {
	dir := t.TempDir()
	old, _ := os.Getwd()
	if err := os.Chdir(dir); err != nil {
		t.Fatal(err)
	}
	defer os.Chdir(old)
	stdout := os.Stdout
	null, _ := os.OpenFile(os.DevNull, os.O_WRONLY, 0)
	os.Stdout = null
	defer func() { os.Stdout = stdout; null.Close() }()

	sess := &engine.Session{}
	for _, q := range []string{
		`CREATE DATABASE cand4`,
		`USE cand4`,
		`CREATE TABLE "it's" (a int, b varchar(10))`,
		`INSERT INTO "it's" VALUES (1, 'x')`,
	} {
		if err := sess.ExecQuery(q); err != nil {
			t.Fatalf("%s: %v", q, err)
		}
	}
	if err := sess.Close(); err != nil {
		t.Fatal(err)
	}

	// what main() does with -db cand4 -table "it's" -dest-cols a,b -src-cols 0,1
	if err := storage.InitStorage(); err != nil {
		t.Fatal(err)
	}
	rm, err := storage.OpenRelation("cand4", true)
	if err != nil {
		t.Fatal(err)
	}
	defer rm.Close()
	*cfgDb, *cfgTable, *cfgDestCols, *cfgSrcCols = "cand4", "it's", "a,b", "0,1"
	cfg, err := makeConfig(rm)
	if err != nil {
		// a refusal before the first record is fine
		return
	}

	// doBatchInsert converts every record with csvToSql in its goroutine;
	// call it here so that the panic can be caught
	defer func() {
		if r := recover(); r != nil {
			t.Errorf("makeConfig returned no error and colTypes = %v; the first record panics: %v", cfg.colTypes, r)
		}
	}()
	row, err := csvToSql(cfg, []string{"2", "y"})
	if err != nil {
		return
	}
	q := sql.InsertStatement{TableName: cfg.table}
	q.InsertColumnList.ColumnNames = cfg.dstCols
	q.QueryExpression = sql.TableValueConstructor{TableValueConstructorList: []sql.RowValueConstructor{{RowValueConstructorList: row}}}
	if _, err := engine.EvaluateInsert(q, rm); err != nil {
		t.Logf("insert refused: %v", err)
	}
}
