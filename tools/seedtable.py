#!/usr/bin/env python3
"""Markdown tables for DESIGN.md section 12 from seeded/RESULTS.tsv and the meta files."""
import json, os, sys, glob, subprocess
ROOT = os.path.dirname(os.path.dirname(os.path.abspath(__file__)))
res = {}
for l in open(os.path.join(ROOT, 'seeded/RESULTS.tsv')):
    f = l.rstrip('\n').split('\t')
    if len(f) >= 4:
        res[(f[0], f[1])] = f
def desc(pid, prefix, k):
    fn = os.path.join(ROOT, 'seeded', pid, (prefix + 'meta.json'))
    try:
        d = json.load(open(fn))
        e = d[k - 1] if isinstance(d, list) else (d.get('patches') or d.get('changes'))[k - 1]
        files = e.get('files_changed') or e.get('files') or []
        if isinstance(files, str): files = [files]
        return ','.join(os.path.basename(x) for x in files), (e.get('description') or e.get('summary') or '')[:150].replace('|', '/').replace('\n', ' ')
    except Exception as ex:
        return '?', ''
def now(f):
    if f[3] == 'failing-input': return 'failing input (' + f[4].replace('sig=', '') + ')'
    if f[3] == 'MISSED': return '**MISSED**'
    return 'no failing input (' + f[5].replace('broken: fact ', 'fact ') + ')'
which = sys.argv[1] if len(sys.argv) > 1 else 'r3'
print('| change | file | what it does | quick check now |')
print('|---|---|---|---|')
if which == 'r3':
    for pid in ['C01','C02','C03','C04','C11','C13','C14','C15','C16','C17']:
        for k in (1, 2):
            key = (pid, 'r3-patch%d.diff' % k)
            if key in res:
                fl, d = desc(pid, 'r3-', k)
                print('| %s r3-patch%d | %s | %s… | %s |' % (pid, k, fl, d, now(res[key])))
else:
    for key in sorted(res):
        if key[1].startswith('r4-'):
            h = key[1].split('-')[2]
            subj = subprocess.run(['git', '-C', '/repo', 'log', '--format=%s', '-1', h], capture_output=True, text=True).stdout.strip()
            print('| %s revert %s | | undoes "%s" | %s |' % (key[0], h, subj[:110], now(res[key])))
