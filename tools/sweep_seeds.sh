#!/bin/bash
# Unchanged-tree sweep: every property, several seeds (quick) and one thorough run; prints one line per run.
cd "$(dirname "$0")/.."
bash tools/setup.sh >/dev/null 2>&1
for seed in ${SEEDS:-2 3 4 5 6 7}; do
  for i in 01 02 03 04 05 06 07 08 09 10 11 12 13 14 15 16 17 18 19 20; do
    r=$(VERIF_SEED=$seed ./check C$i --tier quick 2>&1 | grep -E "^(==.*(PASS|FAIL)|VIOLATION)" | tr '\n' ' ')
    echo "seed=$seed C$i $r"
  done
done
if [ -n "$THOROUGH" ]; then
  for i in 01 02 03 04 05 06 07 08 09 10 11 12 13 14 15 16 17 18 19 20; do
    r=$(./check C$i --tier thorough 2>&1 | grep -E "^(==.*(PASS|FAIL)|VIOLATION)" | tr '\n' ' ')
    echo "thorough C$i $r"
  done
fi
