#!/bin/bash
# Unchanged-tree sweep, properties in parallel: SEEDS="11 12" JOBS=6 [THOROUGH=1] tools/sweep_par.sh
cd "$(dirname "$0")/.."
bash tools/setup.sh >/dev/null 2>&1
one() {
  seed=$1; id=$2; tier=$3
  r=$(VERIF_SEED=$seed ./check $id --tier $tier 2>&1 | grep -E "^(==.*(PASS|FAIL)|VIOLATION|KNOWN-FINDING)" | cut -c1-220 | tr '\n' ' ')
  echo "seed=$seed tier=$tier $id $r"
}
export -f one
for seed in ${SEEDS:-11 12 13}; do
  for i in 01 02 03 04 05 06 07 08 09 10 11 12 13 14 15 16 17 18 19 20; do echo "$seed C$i quick"; done
done | xargs -P ${JOBS:-6} -L 1 bash -c 'one $0 $1 $2'
if [ -n "$THOROUGH" ]; then
  for i in 01 02 03 04 05 06 07 08 09 10 11 12 13 14 15 16 17 18 19 20; do echo "1 C$i thorough"; done | xargs -P ${JOBS:-6} -L 1 bash -c 'one $0 $1 $2'
fi
