#!/bin/bash
# Re-run every seeded change under seeded/Cnn/patchK.diff against the quick check of its property.
# Writes seeded/RESULTS.tsv: property, patch, exit code, verdict (failing-input | no-failing-input | MISSED), signature
cd "$(dirname "$0")/.."
export VERIF_NOSHRINK=1   # the sweep only classifies: failing input / broken obligation only / missed
out=seeded/RESULTS.tsv
: > $out
for d in seeded/C*/; do
  id=$(basename $d)
  for p in $d/*patch*.diff; do
    r=$(python3 tools/seedrun.py $p $id 2>&1)
    code=$(echo "$r" | grep -o "exit=[0-9]*" | head -1 | cut -d= -f2)
    if [ "$code" = "0" ]; then verdict=MISSED
    elif echo "$r" | grep -q "no-failing-input-found"; then verdict=no-failing-input
    else verdict=failing-input; fi
    sig=$(echo "$r" | grep -o "sig=[^ ]*" | head -1)
    brk=$(echo "$r" | grep -o "broken: fact [^:]*" | head -1)
    printf "%s\t%s\t%s\t%s\t%s\t%s\n" "$id" "$(basename $p)" "$code" "$verdict" "$sig" "$brk" >> $out
  done
done
