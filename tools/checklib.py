"""Generic engine behind ./check (see DESIGN.md section 2.3)."""
import sys, os, json, subprocess, time, re, shutil, tempfile, fcntl

ALLOWED_AXIOMS = {'propext', 'Classical.choice', 'Quot.sound'}
FORBIDDEN_SRC = re.compile(r'\b(sorry|admit|native_decide|bv_decide|implemented_by|unsafe)\b|^\s*axiom\s|maxHeartbeats\s+0\b')
GOENV = dict(GOFLAGS='-mod=mod', GOPROXY='off', GOSUMDB='off', GOTOOLCHAIN='local')


def log(*a):
    print(*a, flush=True)


class Ctx:
    def __init__(self, root, pid, tier, seed):
        self.root, self.pid, self.tier, self.seed = root, pid, tier, seed
        self.lean = os.path.join(root, 'lean')
        self.scratch = tempfile.mkdtemp(prefix='verif-%s-' % pid)
        self.env = dict(os.environ)
        self.env.update(GOENV)
        self.env['VERIF_SEED'] = str(seed)
        self.env['VERIF_TIER'] = tier
        self.broken = []          # proof obligations / facts / correspondence that no longer check
        self.violations = []      # judge verdicts on the implementation: dict(sig, case, text, run)
        self.mismatches = []      # correspondence differences: dict(run, case, ...)
        self.known = []           # matched known findings
        self.obligations = []     # (name, ok)
        self.cov = {'evaluations': 0, 'distinct_nontrivial': 0, 'samples': [], 'runs': []}
        self.t0 = time.time()

    def cleanup(self):
        shutil.rmtree(self.scratch, ignore_errors=True)


def _limit_memory():
    # a change of the code can make an operation allocate without end: the harness then dies with
    # "out of memory" at 20 GiB of address space (reported as a run cut short) instead of taking the machine down
    import resource
    resource.setrlimit(resource.RLIMIT_AS, (20 << 30, 20 << 30))


def sh(cmd, cwd=None, env=None, timeout=None, stdin=None, stdout=None, limit=False):
    p = subprocess.run(cmd, cwd=cwd, env=env, timeout=timeout, stdin=stdin, preexec_fn=_limit_memory if limit else None,
                       stdout=stdout if stdout is not None else subprocess.PIPE,
                       stderr=subprocess.STDOUT if stdout is None else subprocess.PIPE, text=True)
    return p.returncode, (p.stdout if stdout is None else (p.stderr or ''))


# ---------------------------------------------------------------------------------------
# 1. facts

def run_extractor(ctx):
    """Regenerate facts.json and lean/Mkdb/Generated/*.lean from /repo (written only if changed)."""
    exe = os.path.join(ctx.scratch, 'extract')
    rc, out = sh(['go', 'build', '-o', exe, '.'], cwd=os.path.join(ctx.root, 'tools', 'extract'), env=ctx.env, timeout=300)
    if rc != 0:
        ctx.broken.append('extractor-build: ' + out[-400:])
        return {}
    facts_path = os.path.join(ctx.scratch, 'facts.json')
    rc, out = sh([exe, '-repo', '/repo', '-facts', facts_path, '-lean', os.path.join(ctx.lean, 'Mkdb', 'Generated')],
                 env=ctx.env, timeout=300)
    if rc != 0:
        ctx.broken.append('extractor-run: ' + out[-600:])
        return {}
    with open(facts_path) as f:
        return json.load(f)


def check_facts(ctx, facts, keys):
    with open(os.path.join(ctx.root, 'tools', 'expect', 'facts.json')) as f:
        expect = json.load(f)
    expanded = []
    for k in keys:
        if k.endswith('*'):
            ks = sorted(set(x for x in list(facts) + list(expect) if x.startswith(k[:-1])))
            expanded += ks
        else:
            expanded.append(k)
    for k in expanded:
        ok = k in facts and k in expect and facts[k] == expect[k]
        ctx.obligations.append(('fact:' + k, ok))
        if not ok:
            ctx.broken.append('fact %s: source now gives %s, expected %s' % (
                k, json.dumps(facts.get(k))[:300], json.dumps(expect.get(k))[:300]))


# ---------------------------------------------------------------------------------------
# 2. Lean build + audit

class LakeLock:
    def __init__(self, ctx):
        self.path = os.path.join(ctx.lean, '.lake-lock')

    def __enter__(self):
        self.f = open(self.path, 'w')
        fcntl.flock(self.f, fcntl.LOCK_EX)

    def __exit__(self, *a):
        fcntl.flock(self.f, fcntl.LOCK_UN)
        self.f.close()


def strip_comments(src):
    src = re.sub(r'/-.*?-/', lambda m: '\n' * m.group(0).count('\n'), src, flags=re.S)
    return re.sub(r'--.*', '', src)


def theorems_of(path):
    src = strip_comments(open(path).read())
    ns = []
    out = []
    for line in src.split('\n'):
        m = re.match(r'\s*namespace\s+(\S+)', line)
        if m:
            ns.append(m.group(1))
        m = re.match(r'\s*end\s+(\S+)', line)
        if m and ns and ns[-1] == m.group(1):
            ns.pop()
        m = re.match(r'\s*(?:@\[[^\]]*\]\s*)?theorem\s+(\S+)', line)
        if m:
            out.append('.'.join(ns + [m.group(1)]))
    return out


def lean_sources(ctx, modules):
    """Transitive project-local imports of the given modules."""
    seen, todo = [], list(modules)
    while todo:
        m = todo.pop()
        if m in seen:
            continue
        p = os.path.join(ctx.lean, m.replace('.', '/') + '.lean')
        if not os.path.exists(p):
            continue
        seen.append(m)
        for l in open(p):
            mm = re.match(r'\s*import\s+(Mkdb\.\S+)', l)
            if mm:
                todo.append(mm.group(1))
    return seen


def lean_build_and_audit(ctx, prop_modules):
    with LakeLock(ctx):
        rc, out = sh(['lake', 'build'] + prop_modules + ['mkdbdrv'], cwd=ctx.lean, env=ctx.env, timeout=3000)
    if rc != 0:
        errs = [l for l in out.split('\n') if 'error' in l][:8]
        ctx.broken.append('lean-build failed: ' + ' | '.join(errs)[:900])
        for m in prop_modules:
            for t in theorems_of(os.path.join(ctx.lean, m.replace('.', '/') + '.lean')):
                ctx.obligations.append(('theorem:' + t, False))
        return False
    # forbidden constructs in any source the property modules depend on
    for m in lean_sources(ctx, prop_modules):
        p = os.path.join(ctx.lean, m.replace('.', '/') + '.lean')
        for i, line in enumerate(strip_comments(open(p).read()).split('\n')):
            if FORBIDDEN_SRC.search(line):
                ctx.broken.append('forbidden construct in %s:%d: %s' % (m, i + 1, line.strip()[:80]))
    # axiom audit
    thms = []
    for m in prop_modules:
        thms += theorems_of(os.path.join(ctx.lean, m.replace('.', '/') + '.lean'))
    audit = os.path.join(ctx.scratch, 'Audit.lean')
    with open(audit, 'w') as f:
        for m in prop_modules:
            f.write('import %s\n' % m)
        for t in thms:
            f.write('#print axioms %s\n' % t)
    rc, out = sh(['lake', 'env', 'lean', audit], cwd=ctx.lean, env=ctx.env, timeout=1200)
    seen = {}
    for m in re.finditer(r"'([^']+)' (depends on axioms: \[([^\]]*)\]|does not depend on any axioms)", out.replace('\n', ' ')):
        axs = set(a.strip() for a in (m.group(3) or '').split(',') if a.strip())
        seen[m.group(1)] = axs
    ok_all = rc == 0
    ctx.cov['axioms'] = sorted(set().union(*seen.values())) if seen else []
    for t in thms:
        axs = seen.get(t)
        ok = axs is not None and axs <= ALLOWED_AXIOMS
        ctx.obligations.append(('theorem:' + t, ok))
        if not ok:
            ok_all = False
            ctx.broken.append('theorem %s: %s' % (t, 'not found by audit' if axs is None else 'axioms ' + ','.join(sorted(axs - ALLOWED_AXIOMS))))
    if rc != 0 and ok_all is False and not any('theorem' in b for b in ctx.broken):
        ctx.broken.append('audit failed: ' + out[-300:])
    return ok_all


def leanchecker(ctx, prop_modules):
    with LakeLock(ctx):
        rc, out = sh(['lake', 'env', 'leanchecker'] + prop_modules, cwd=ctx.lean, env=ctx.env, timeout=3000)
    ctx.obligations.append(('leanchecker', rc == 0))
    if rc != 0:
        ctx.broken.append('leanchecker: ' + out[-300:])


# ---------------------------------------------------------------------------------------
# 3. harness, correspondence, judge

def build_harness(ctx, race=False):
    hdir = os.path.join(ctx.root, 'harness')
    shutil.copyfile('/repo/go.sum', os.path.join(hdir, 'go.sum'))
    exe = os.path.join(ctx.scratch, 'h-race' if race else 'h')
    cmd = ['go', 'build', '-tags', 'verif'] + (['-race'] if race else []) + ['-o', exe, './cmd/h']
    rc, out = sh(cmd, cwd=hdir, env=ctx.env, timeout=900)
    if rc != 0:
        ctx.broken.append('harness-build (go build -tags verif against /repo): ' + out[-600:])
        return None
    return exe


def split_cases(path, keep_tilde=False):
    """Yield (case_id, [lines]) for a trace file."""
    cur_id, cur = None, []
    with open(path, errors='replace') as f:
        for line in f:
            line = line.rstrip('\n')
            if line.startswith('~') and not keep_tilde:
                continue
            if line.startswith('case '):
                if cur_id is not None:
                    yield cur_id, cur
                cur_id, cur = line.split()[1], [line]
            elif cur_id is not None:
                cur.append(line)
    if cur_id is not None:
        yield cur_id, cur


def first_diffs(a_path, b_path, limit=3):
    """Compare two traces case by case; return up to `limit` differing cases."""
    out = []
    ia, ib = split_cases(a_path), split_cases(b_path)
    while True:
        a = next(ia, None)
        b = next(ib, None)
        if a is None and b is None:
            break
        if a is None or b is None or a != b:
            la = a[1] if a else []
            lb = b[1] if b else []
            k = 0
            while k < min(len(la), len(lb)) and la[k] == lb[k]:
                k += 1
            out.append(dict(case=(a or b)[0], at=k, impl=la, model=lb,
                            impl_line=la[k] if k < len(la) else '<end>', model_line=lb[k] if k < len(lb) else '<end>'))
            if len(out) >= limit:
                break
            if a is None or b is None:
                break
    return out


def run_one(ctx, exe, run, seed, tier, tag, replay_ops=None):
    """One harness run + model replay + judge.  Returns the run directory."""
    d = os.path.join(ctx.scratch, '%s-%s' % (run['cmd'], tag))
    os.makedirs(d, exist_ok=True)
    env = ctx.env
    if run.get('race'):
        if not getattr(ctx, 'race_exe', None):
            ctx.race_exe = build_harness(ctx, race=True)
        if ctx.race_exe:
            exe = ctx.race_exe
            env = dict(ctx.env)
            env['GORACE'] = 'log_path=%s halt_on_error=0 exitcode=0' % os.path.join(d, 'race')
    cmd = [exe, run['cmd'], '-seed', str(seed), '-tier', tier, '-out', d]
    cdir = os.path.join(ctx.root, 'corpus', run.get('corpus', ctx.pid))
    if replay_ops is None and os.path.isdir(cdir):
        cmd += ['-corpus', cdir]
    if replay_ops is not None:
        rp = os.path.join(d, 'replay-ops.txt')
        with open(rp, 'w') as f:
            f.write('\n'.join(replay_ops) + '\n')
        cmd += ['-replay', rp]
    cmd += run.get('args', [])
    work = os.path.join(d, 'work')
    os.makedirs(work, exist_ok=True)
    t = time.time()
    try:
        rc, out = sh(cmd, cwd=work, env=env, timeout=run.get('timeout', 1500) * (4 if tier == 'thorough' else 1), limit=not run.get('race'))
    except subprocess.TimeoutExpired:
        rc, out = 124, 'harness timed out'
    shutil.rmtree(work, ignore_errors=True)
    info = dict(cmd=run['cmd'], seed=seed, tier=tier, harness_s=round(time.time() - t, 1))
    trace = os.path.join(d, 'trace.txt')
    if rc != 0:
        ctx.broken.append('harness %s exited %d: %s' % (run['cmd'], rc, out[-500:]))
        # A fatal error of the Go runtime inside the real code (stack overflow cannot be recovered) kills
        # the harness.  Harnesses that can meet one flush every operation line first: the trace then ends
        # with the fatal operation, which is reported to model and judge as a panic of that operation.
        fatal = rc == 2 and ('stack overflow' in out or 'fatal error' in out or 'goroutine stack exceeds' in out)
        if not (os.path.exists(trace) and os.path.getsize(trace) > 0):
            ctx.cov['runs'].append(info)
            return d
        if fatal:
            with open(trace, 'a') as f:
                f.write('> panic\n')
            info['fatal'] = True
        else:
            # the watchdog ended the run (an operation of the real code did not return; the trace ends with
            # its "> hang") or the harness stopped for another reason: what it wrote up to there is still
            # compared and judged - the cases before the one that hung may hold the failing input
            info['cut_short'] = True
    drv = os.path.join(ctx.lean, '.lake', 'build', 'bin', 'mkdbdrv')
    model = os.path.join(d, 'model.txt')
    with open(trace) as fin, open(model, 'w') as fout:
        p = subprocess.run([drv, 'model', run['proto']], stdin=fin, stdout=fout, stderr=subprocess.PIPE, text=True)
    if p.returncode != 0:
        ctx.broken.append('model driver %s failed: %s' % (run['proto'], p.stderr[-300:]))
    diffs = first_diffs(trace, model)
    for df in diffs:
        df['run'] = run
        df['seed'] = seed
        df['tier'] = tier
        ctx.mismatches.append(df)
    if run.get('judge', True):
        verdicts = os.path.join(d, 'judge.txt')
        with open(trace) as fin, open(verdicts, 'w') as fout:
            p = subprocess.run([drv, 'judge', run['proto']], stdin=fin, stdout=fout, stderr=subprocess.PIPE, text=True)
        if p.returncode != 0:
            ctx.broken.append('judge driver %s failed: %s' % (run['proto'], p.stderr[-300:]))
        cases = None
        with open(verdicts) as f:
            for line in f:
                if line.startswith('VIOLATION'):
                    m = re.search(r'case=(\S+)', line)
                    s = re.search(r'sig=(\S+)', line)
                    if cases is None:
                        cases = dict(split_cases(trace, keep_tilde=True))
                    cid = m.group(1) if m else '?'
                    ctx.violations.append(dict(run=run, seed=seed, tier=tier, case=cid, sig=s.group(1) if s else '?',
                                               text=line.strip(), lines=cases.get(cid, [])))
                    if len(ctx.violations) > 50:
                        break
    try:
        st = json.load(open(os.path.join(d, 'stats.json')))
    except Exception:
        st = {}
    info.update(cases=st.get('cases', 0), ops=st.get('ops', 0), counts=st.get('counts', {}), notes=st.get('notes', {}),
                distinct=st.get('distinct', 0), distinct_nontrivial=st.get('distinct_nontrivial', 0),
                total_s=round(time.time() - t, 1), mismatching_cases=len(diffs))
    ctx.cov['evaluations'] += st.get('cases', 0)
    ctx.cov['distinct_nontrivial'] += st.get('distinct_nontrivial', 0)
    for s in (st.get('samples') or [])[:3]:
        if len(ctx.cov['samples']) < 8:
            ctx.cov['samples'].append(s)
    ctx.cov['runs'].append(info)
    ctx.obligations.append(('correspondence:%s seed=%d' % (run['cmd'], seed), not diffs and rc == 0))
    return d


def judge_sigs(ctx, exe, run, ops, tag):
    """Run the harness on the given op lines and return the set of judge signatures."""
    d = os.path.join(ctx.scratch, 'shrink-%s' % tag)
    shutil.rmtree(d, ignore_errors=True)
    os.makedirs(os.path.join(d, 'work'))
    rp = os.path.join(d, 'ops.txt')
    with open(rp, 'w') as f:
        f.write('\n'.join(ops) + '\n')
    cmd = [exe, run['cmd'], '-seed', '1', '-tier', 'quick', '-out', d, '-replay', rp] + run.get('args', [])
    try:
        rc, _ = sh(cmd, cwd=os.path.join(d, 'work'), env=ctx.env, timeout=120)
    except subprocess.TimeoutExpired:
        return set()
    if rc != 0:
        return set()
    drv = os.path.join(ctx.lean, '.lake', 'build', 'bin', 'mkdbdrv')
    with open(os.path.join(d, 'trace.txt')) as fin:
        p = subprocess.run([drv, 'judge', run['proto']], stdin=fin, stdout=subprocess.PIPE, stderr=subprocess.PIPE, text=True)
    return set(re.findall(r'sig=(\S+)', p.stdout))


def shrink(ctx, exe, run, ops, sig, budget_s=90):
    """Delta debugging on the operation lines of a failing case: drop chunks while the judge
    still reports the same signature.  The case header and set-up lines (first two) stay."""
    t0 = time.time()
    head, body = ops[:2], ops[2:]
    if sig not in judge_sigs(ctx, exe, run, head + body, 's0'):
        return ops
    n = 2
    while len(body) >= 2 and time.time() - t0 < budget_s:
        chunk = max(1, len(body) // n)
        removed = False
        i = 0
        while i < len(body) and time.time() - t0 < budget_s:
            cand = body[:i] + body[i + chunk:]
            if cand != body and sig in judge_sigs(ctx, exe, run, head + cand, 's1'):
                body = cand
                removed = True
            else:
                i += chunk
        if not removed:
            if chunk == 1:
                break
            n = min(len(body), n * 2)
    return head + body


# ---------------------------------------------------------------------------------------
# 4. known findings, replays, evidence

def load_known(ctx):
    """KNOWN_FINDINGS.txt: `finding: property=Cnn sig=<regex> <text>`; `fixed:` lines suppress nothing."""
    out = []
    p = os.path.join(ctx.root, 'KNOWN_FINDINGS.txt')
    if os.path.exists(p):
        for line in open(p):
            m = re.match(r'finding:\s+property=(\S+)\s+sig=(\S+)\s+(.*)', line.strip())
            if m and m.group(1) == ctx.pid:
                out.append(dict(sig=m.group(2), text=m.group(3)))
    return out


def write_replay(ctx, kind, payload):
    os.makedirs(os.path.join(ctx.root, 'replays'), exist_ok=True)
    path = os.path.join(ctx.root, 'replays', '%s-%s-seed%d-%d.json' % (ctx.pid, kind, ctx.seed, int(time.time())))
    payload = dict(payload)
    payload.update(property=ctx.pid, kind=kind, seed=ctx.seed, tier=ctx.tier,
                   how_to_replay='./check %s --replay %s' % (ctx.pid, path))
    with open(path, 'w') as f:
        json.dump(payload, f, indent=1)
    return path


def ops_of(lines):
    return [l for l in lines if not l.startswith('>') and not l.startswith('~')]


def write_evidence(ctx, spec, nviol, replay=False):
    os.makedirs(os.path.join(ctx.root, 'evidence'), exist_ok=True)
    obl = len(ctx.obligations)
    dis = sum(1 for _, ok in ctx.obligations if ok)
    cov = dict(ctx.cov)
    cov.update(
        obligations=obl, discharged=dis,
        obligation_list=[dict(name=n, ok=ok) for n, ok in ctx.obligations],
        checker_cmd='cd lean && lake build %s && lake env lean <generated #print axioms file>%s' % (
            ' '.join(spec['lean']), ' && lake env leanchecker ' + ' '.join(spec['lean']) if ctx.tier == 'thorough' else ''),
        trusted_base=spec.get('trusted_base', []) + [
            'Lean 4.33.0 kernel; axioms allowed: propext, Classical.choice, Quot.sound (audited per theorem by #print axioms)',
            'tools/extract (Go fact extractor) and tools/expect/facts.json',
            'harness/ (generators, canonicalisation) and the verif-tagged hooks in /repo',
        ],
        rule=spec.get('rule', ''),
        broken=ctx.broken, known_findings_matched=[k['text'] for k in ctx.known],
        explanation=spec.get('explanation', ''),
    )
    if not cov['samples']:
        cov['samples'] = [n for n, _ in ctx.obligations[:5]]
    ev = dict(property_id=ctx.pid, tier=ctx.tier, seed=ctx.seed, level=spec.get('level', 'proof'), coverage=cov,
              assumptions=spec.get('assumptions', []), wall_s=round(time.time() - ctx.t0, 1), violations=nviol)
    # a --replay run leaves the property's evidence file alone
    out = os.path.join(ctx.root, 'replays', ctx.pid + '.replay-evidence.json') if replay else os.path.join(ctx.root, 'evidence', ctx.pid + '.json')
    os.makedirs(os.path.dirname(out), exist_ok=True)
    with open(out, 'w') as f:
        json.dump(ev, f, indent=1)


# ---------------------------------------------------------------------------------------

def main(root, argv):
    import props
    if not argv or argv[0] not in props.PROPS:
        print('usage: check <%s> [--tier quick|thorough] [--replay FILE]' % '|'.join(sorted(props.PROPS)))
        return 2
    pid = argv[0]
    tier = os.environ.get('VERIF_TIER', 'quick')
    replay = None
    i = 1
    while i < len(argv):
        if argv[i] == '--tier':
            tier = argv[i + 1]; i += 2
        elif argv[i] == '--replay':
            replay = argv[i + 1]; i += 2
        else:
            i += 1
    if tier not in ('quick', 'thorough'):
        tier = 'quick'
    try:
        seed = int(os.environ.get('VERIF_SEED', '1'))
    except ValueError:
        seed = 1
    spec = props.PROPS[pid]
    ctx = Ctx(root, pid, tier, seed)
    try:
        return run_check(ctx, spec, replay)
    finally:
        ctx.cleanup()


def run_check(ctx, spec, replay):
    pid = ctx.pid
    log('== %s tier=%s seed=%d' % (pid, ctx.tier, ctx.seed))
    # 1 facts
    facts = run_extractor(ctx)
    if facts:
        check_facts(ctx, facts, spec.get('facts', []))
    # 2 lean
    lean_ok = lean_build_and_audit(ctx, spec['lean'])
    if lean_ok and ctx.tier == 'thorough' and not replay:
        leanchecker(ctx, spec['lean'])
    log('-- lean: %s (%d obligations so far, %d broken)' % ('ok' if lean_ok else 'BROKEN', len(ctx.obligations), len(ctx.broken)))
    drv_ok = os.path.exists(os.path.join(ctx.lean, '.lake', 'build', 'bin', 'mkdbdrv'))
    # 3 harness
    exe = build_harness(ctx) if drv_ok else None
    if exe:
        for k, hook in enumerate(spec.get('pre', [])):
            hook(ctx)
        if replay:
            rp = json.load(open(replay))
            runs = [r for r in spec['runs'] if r['cmd'] == rp.get('harness_cmd', spec['runs'][0]['cmd'])] or spec['runs'][:1]
            if rp.get('ops'):
                run_one(ctx, exe, runs[0], rp.get('seed', ctx.seed), rp.get('tier', ctx.tier), 'replay', replay_ops=rp['ops'])
            else:
                log('replay file names no concrete input (%s); re-running the full check' % rp.get('kind'))
                for r in spec['runs']:
                    run_one(ctx, exe, r, ctx.seed, ctx.tier, 'main')
        else:
            for r in spec['runs']:
                if r.get('tier_only') and r['tier_only'] != ctx.tier:
                    continue
                run_one(ctx, exe, r, ctx.seed, ctx.tier, 'main')
            # search: something broke but no concrete property failure yet -> widen
            if (ctx.broken or ctx.mismatches) and not ctx.violations and not replay:
                log('-- something no longer checks; searching for a concrete failing input (wider budgets, more seeds)')
                t_search = time.time()
                budget = spec.get('search_budget_s', 300)
                for r in spec['runs']:
                    for k in range(spec.get('search_seeds', 3)):
                        if ctx.violations or time.time() - t_search > budget:
                            break
                        run_one(ctx, exe, r, ctx.seed * 1000 + 17 * k + 1, spec.get('search_tier', 'thorough'), 'search%d' % k)
    for hook in spec.get('post', []):
        hook(ctx)
    # 4 classify
    known = load_known(ctx)
    unlisted = []
    sigf = spec.get('sig_filter')
    for v in ctx.violations:
        if sigf and not re.fullmatch(sigf, v['sig']):
            continue   # a verdict about another property's clause (same harness run)
        hit = next((k for k in known if re.fullmatch(k['sig'], v['sig'])), None)
        if hit:
            if hit not in ctx.known:
                ctx.known.append(hit)
        else:
            unlisted.append(v)
    for k in ctx.known:
        print('KNOWN-FINDING: property=%s %s' % (pid, k['text']), flush=True)
    rc = 0
    if unlisted:
        v = unlisted[0]
        if exe and not replay and len(ops_of(v['lines'])) > 6 and spec.get('shrink', True) and not os.environ.get('VERIF_NOSHRINK'):
            small = shrink(ctx, exe, v['run'], ops_of(v['lines']), v['sig'])
            log('-- failing case shrunk from %d to %d operation lines' % (len(ops_of(v['lines'])), len(small)))
            v = dict(v)
            v['original_ops'] = len(ops_of(v['lines']))
            v['lines'] = small
        path = write_replay(ctx, 'failing-input', dict(
            harness_cmd=v['run']['cmd'], proto=v['run']['proto'], case=v['case'], verdict=v['text'],
            all_verdicts=[x['text'] for x in unlisted[:10]], ops=ops_of(v['lines']), trace=v['lines'][:400],
            broken=ctx.broken, seed=v['seed'], tier=v['tier']))
        log('property fails on the implementation: ' + v['text'][:300])
        print('VIOLATION property=%s replay=%s' % (pid, path), flush=True)
        rc = 1
    elif ctx.broken or ctx.mismatches:
        m = ctx.mismatches[0] if ctx.mismatches else None
        payload = dict(broken=ctx.broken, note='no input was found on which the property itself fails; the items in '
                       '`broken` / `first_mismatch` no longer check, so the property is no longer shown to hold')
        if m:
            payload.update(harness_cmd=m['run']['cmd'], proto=m['run']['proto'], ops=ops_of(m['impl']),
                           first_mismatch=dict(case=m['case'], line_index=m['at'], implementation=m['impl_line'][:2000],
                                               model=m['model_line'][:2000]), seed=m['seed'], tier=m['tier'],
                           impl_trace=m['impl'][:300], model_trace=m['model'][:300])
            log('correspondence broke at case %s line %d:\n  impl : %s\n  model: %s' % (
                m['case'], m['at'], m['impl_line'][:300], m['model_line'][:300]))
        for b in ctx.broken[:10]:
            log('broken: ' + b[:400])
        path = write_replay(ctx, 'unchecked-obligation', payload)
        print('VIOLATION property=%s replay=%s no-failing-input-found' % (pid, path), flush=True)
        rc = 1
    write_evidence(ctx, spec, len(unlisted) + (1 if rc and not unlisted else 0), replay=bool(replay))
    log('== %s %s  obligations %d/%d  cases %d  %.1fs' % (
        pid, 'PASS' if rc == 0 else 'FAIL', sum(1 for _, ok in ctx.obligations if ok), len(ctx.obligations),
        ctx.cov['evaluations'], time.time() - ctx.t0))
    return rc
