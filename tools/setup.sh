#!/bin/sh
# Build the framework from files on disk only (offline).
set -e
export GOFLAGS=-mod=mod GOPROXY=off GOSUMDB=off GOTOOLCHAIN=local
cd "$(dirname "$0")/.."
mkdir -p evidence replays
(cd tools/extract && go build -o /dev/null .)
tmp=$(mktemp -d)
(cd tools/extract && go build -o "$tmp/extract" . && "$tmp/extract" -repo /repo -facts "$tmp/facts.json" -lean "$PWD/../../lean/Mkdb/Generated")
rm -rf "$tmp"
cp /repo/go.sum harness/go.sum
(cd harness && go build -tags verif -o /dev/null ./cmd/h)
(cd lean && lake build Mkdb mkdbdrv)
echo setup ok
