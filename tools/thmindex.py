#!/usr/bin/env python3
"""Regenerate section 13 of DESIGN.md (index of the property theorems) from lean/Mkdb/Props/*.lean."""
import re, glob, os
root = os.path.dirname(os.path.dirname(os.path.abspath(__file__)))
out, n = [], 0
for f in sorted(glob.glob(os.path.join(root, 'lean/Mkdb/Props/C*.lean'))):
    pid = os.path.basename(f)[:-5]
    src = open(f).read()
    items = re.findall(r'/--((?:(?!-/).)*)-/\s*\n(?:@\[[^\]]*\]\s*)?theorem\s+(\S+)', src, re.S)
    out.append('**%s** (`lean/Mkdb/Props/%s.lean`)' % (pid, pid))
    for doc, name in items:
        if not name.startswith('C'):
            continue
        d = ' '.join(doc.split())
        d = re.sub(r'^\*\*[^*]*\*\*:?\s*', '', d)
        out.append('* `%s` — %s' % (name, d[:230] + ('…' if len(d) > 230 else '')))
        n += 1
    out.append('')
p = os.path.join(root, 'DESIGN.md')
s = open(p).read()
head = '## 13. Index of the property theorems'
i = s.index(head)
j = s.index('\n**C01**', i)
s = s[:j + 1] + '\n'.join(out)
open(p, 'w').write(s)
print('%d property theorems indexed' % n)
