"""Per-property configuration of ./check: Lean modules holding the property theorems,
source facts the proofs rely on, harness runs (correspondence + judge)."""

PROPS = {}
PENDING = {}

PROPS['C15'] = dict(
    lean=['Mkdb.Props.C15'],
    facts=['lru.capacity', 'skeleton.storage.LRUCache.set', 'skeleton.storage.LRUCache.get',
           'panics.storage.LRUCache.set', 'panics.storage.LRUCache.get'],
    runs=[dict(cmd='lru', proto='lru'), dict(cmd='db', proto='db', args=['c16'], corpus='C15db')],
    sig_filter=r'lru:.*|db:(cache-size-dependent|panic:live|hang:live|select-failed:live)',
    claim='Proof: C15_bounded, C15_lookup(_after_set), C15_evicts_lru_clean, C15_dirty_pinned, C15_refuse_iff, '
          'C15_refuse_unchanged are Lean theorems over every capacity and every finite operation sequence of the '
          'model of LRUCache.set/get plus dirty flips. The model is tied to storage/lru.go on every run by exhaustive '
          'small-scope and random step-by-step correspondence (results and full recency list) and by extracted call '
          'skeletons; the judge evaluates the C15 statement itself on the implementation\'s states.',
    note='Trusted: Lean kernel (axioms propext, Classical.choice, Quot.sound only), the hand-written model, the '
         'harness, container/list and map semantics. The proof is about the model; the code is covered through the '
         'correspondence (bounded: depth 4-5 exhaustive, 400-op random).',
    rule='exhaustive: every op sequence of depth 4 (thorough 5) over 3 keys x {set clean, set dirty, get, flip clean, '
         'flip dirty} at capacities 0..3; random: 20-400 ops at capacities 1..64 and 10000. A case is non-trivial if it '
         'contains an eviction, a refusal or a hit; distinct by (capacity, op list).',
    assumptions=['container/list and the Go map behave as a list and a finite map',
                 'dirtiness is a field of the page object the entry points to (modelled per entry)'],
    trusted_base=['model Mkdb/Model/LRU.lean hand-written from storage/lru.go; tied by step-by-step correspondence on '
                  'return values and the full recency list'],
)

STORAGE_CONSTS = ['const.storage.' + n for n in (
    'pageSize', 'internalNodeHeaderSize', 'leafNodeHeaderSize', 'offsetElemSize', 'nodeCellSize', 'maxValueSize',
    'leafNodeCellSize', 'maxInternalNodeCells', 'maxLeafNodeCells', 'InternalNode', 'LeafNode')]

PROPS['C12'] = dict(
    lean=['Mkdb.Props.C12'],
    facts=STORAGE_CONSTS + ['layout.btreeNode.encodeLeaf', 'layout.btreeNode.encodeInternal',
                            'layout.btreeNode.decodeLeaf', 'layout.btreeNode.decodeInternal',
                            'panics.storage.fileStore.fetch', 'panics.storage.btreeNode.encodeLeaf',
                            'panics.storage.btreeNode.decodeLeaf', 'panics.storage.btreeNode.decodeInternal',
                            'skeleton.storage.fileStore.fetch', 'skeleton.storage.fileStore.update'],
    runs=[dict(cmd='page', proto='page'), dict(cmd='db', proto='db', args=['c08'], corpus='C12db')],
    sig_filter=r'page:.*|db:(contents-differ|select-failed|recovery-failed|panic|hang).*',
    claim='Proof: C12_leaf, C12_internal, C12_roundtrip (every node within capacity - any cell count up to the maximum, '
          'any value bytes up to maxValueSize, any flags, any 64-bit offsets/LSNs - encodes to exactly pageSize bytes and '
          'decodes, through the first-byte dispatch, to the same node), C12_fits (capacity arithmetic over the constants '
          'regenerated from storage/page.go, by decide) and C12_dispatch are Lean theorems about a byte-level model of '
          'encodeLeaf/encodeInternal/decodeLeaf/decodeInternal/fetch. Tie: constants and binary.Write/Read field layouts '
          'are re-extracted from the source every run; the model\'s bytes and decode are compared with '
          'fileStore.update -> cold fileStore.fetch on exhaustive small shapes, random shapes, over-capacity nodes and '
          'damaged page images.',
    note='Trusted: Lean kernel, the hand-written codec model, encoding/binary + bytes.Buffer semantics (modelled), the '
         'harness. Offset arrays are identity in every node the engine builds; heap dumps in C01/C11 runs show the array.',
    rule='exhaustive: leaf cell counts 0..9 x sibling-flag combinations x value sizes {0,1,399,400} x tombstone patterns; '
         'internal nodes at 0,1,2,144,145,289,290 cells; random nodes within capacity; nodes over capacity (panic path); '
         'damaged images (cut short, header bytes overwritten). Non-trivial: a within-capacity node with >= 1 cell; '
         'distinct by node text.',
    assumptions=['encoding/binary little-endian fixed-width semantics', 'bytes.Buffer.Read/Next semantics as modelled in Mkdb/Model/Bin.lean'],
    trusted_base=['model Mkdb/Model/Page.lean + Mkdb/Model/Bin.lean hand-written from storage/page.go'],
)

PROPS['C08'] = dict(
    lean=['Mkdb.Props.C08', 'Mkdb.Props.C12'],
    facts=['layout.Tuple.Encode', 'layout.Tuple.Decode', 'const.storage.maxValueSize',
           'const.storage.TypeInt', 'const.storage.TypeVarchar', 'const.storage.TypeBoolean', 'const.storage.TypeBigInt'],
    runs=[dict(cmd='tuple', proto='tuple'), dict(cmd='sql', proto='sql', args=['literals'], corpus='C08'),
          dict(cmd='db', proto='db', args=['c08'], corpus='C08db')],
    sig_filter=r'(tuple|sql):.*|db:(contents-differ|schema-differs|valid-statement-refused|invalid-statement-accepted|select-failed|panic|hang|recovery-failed).*',
    claim='Proof: C08_accepted_value_is_read_back / C08_accepted_statement_is_read_back / C08_accepted_values_survive_a_crash - end to end over parsed statements: on a database satisfying the invariant an INSERT the plain model accepts succeeds and every later Fetch (the source of every SELECT) returns, for each new row, exactly the given values at the named columns and NULL elsewhere - now, after a flush, after the cache is dropped and every page re-read from the data file, after start-up recovery of the flushed database and after a crash with the statements only in the log (ReadsDurably; C02 rounds); C08_row_refused_iff / C08_refused_value_is_not_stored / C08_refused_statement_is_not_stored - a row is refused exactly for a wrong count, a value its column type does not admit (C08_refuse_kind) or an encoding over the limit, and then nothing is stored or logged and the old rows read back durably. Codec level: C08_tuple_roundtrip (for every schema with distinct column names and every assignment of int64 / byte-string / '
          'boolean / NULL values, what Tuple.Encode accepts Tuple.Decode returns bit-for-bit), C08_accept_iff (a row is accepted '
          'exactly when each column is NULL or of the column type, INT within 32 bits) and C08_refuse_kind (which error) are Lean '
          'theorems over the byte-level row codec model; C12_roundtrip carries the bytes through a page. Tie: Encode/Decode field '
          'layouts re-extracted every run; the encoded bytes, error kinds and decoded maps are compared with the real '
          'Tuple.Encode/Decode on boundary and random rows; the judge evaluates accept/refuse and read-back on the implementation.',
    note='Trusted: Lean kernel, hand-written model of relation.go Tuple/FieldDef, Go map modelled as association list, harness. '
         'Statement-level read-back (flush, eviction, restart) is exercised by the C01/C02/C16 runs, literals by C09/C10.',
    rule='single-column schemas x every boundary value of every kind (exhaustive), then random schemas of 1-8 columns over the four '
         ' [round 2] plus statement-level limit histories (db c08): rows whose encoding is just below, at and above the 400-byte cell limit by INSERT and by UPDATE, INT range ends, empty strings, NULLs; read back from the cache, after flush + reload, after crash + recovery. '
         'types with valid rows, rows with one invalid column, type-confused rows, absent / explicit-NULL columns, unknown columns, '
         'duplicate assignments and duplicate column names. Non-trivial: non-empty schema and assignment; distinct by text.',
    assumptions=['reflect.Kind of the supplied Go values is int64/string/bool/nil (what parser and csvimport produce)'],
    trusted_base=['model Mkdb/Model/Tuple.lean hand-written from storage/relation.go'],
)

SQL_PANIC_FACTS = ['panics.sql.*', 'sql.tokens', 'const.sql.*']

PROPS['C09'] = dict(
    lean=['Mkdb.Props.C09'],
    facts=SQL_PANIC_FACTS + ['skeleton.engine.Session.ExecQuery'],
    runs=[dict(cmd='sql', proto='sql', timeout=1200)],
    search_seeds=1,
    claim='Proof: C09_no_panic - for every rune sequence (arbitrary letter/digit/upper-case oracles for non-ASCII runes) the model of '
          'engine.parseSQL (go_scanner.Scan + tokenScanner.Cur + every parser production, with each Go panic site an explicit '
          '.panic outcome) returns a statement or an error value, never a panic; C09_parse_no_panic the same for every token list; '
          'C09_unquote_guard: the quote-stripping slice is only taken on a terminated token of length >= 2. Termination: the model is '
          'total with fuel; that the initial fuel is never exhausted (every loop iteration / recursive production consumes a token) '
          'is proved (C09_scan_terminates, C09_parse_terminates, C09_total). Memory: what the front end BUILDS is linear in the input - C09_token_count_linear (at most one token per input rune), C09_token_text_linear (token text at most the input bytes + 2), C09_ast_size_linear / C09_output_linear (the size of the returned statement - every constructor, list cell and text byte - is at most 3 * runes + input bytes + 11), C09_recursion_depth_linear / C09_parse_depth_input (the nesting depth of every condition tree, which is what the Go stack pays in parser and evaluator, is at most the number of tokens consumed), for every input and every fuel; transient allocations of the Go code (the 1024-byte read buffer, per-token upper-case copies, append slack, error strings that embed one token once) are not modelled. '
          'Limit of the claim: the theorems bound the recursion of the model by fuel linear in the input, the Go stack is finite - a statement of millions of nested OR / AND terms (25 MB of text) overflows it in the parser, two million terms in the evaluator; no check generates inputs of that size, the claim is for inputs whose nesting the Go stack holds (about a million terms). Tie: the panic-site inventory of sql/*.go and the token table are re-extracted every run; scanner tokens, parse outcome '
          'class, error kind and AST are compared with the real scanner+parser on all token sequences of length <= 2-3 over the full '
          'vocabulary, every truncation and mutation of generated statements, unterminated quotes, huge numbers, random bytes incl. '
          'invalid UTF-8 and >1024-byte inputs, under a watchdog.',
    note='Trusted: Lean kernel, hand-written scanner/parser model, UTF-8 decoding and Unicode tables (supplied per rune by the '
         'harness), strconv.Atoi (modelled), Go stack depth on pathologically deep OR chains (not modelled).',
    rule='corpus of past failures; all token sequences of length 1-2 over the vocabulary (one token per token type plus literal / '
         ' [round 2] plus every keyword/operator of the token table as a quoted string in three spellings, spans of 1-4 words said twice, and all 81 pairs (and triples c1 c2 c1) of trailing SELECT clauses. '
         'identifier variants) and statement keyword + all length-2 (thorough: 3) sequences; generated statements with two '
         'renderings each, all word-boundary truncations, random cuts, word mutations; unterminated literals; exhaustive boolean '
         'shapes up to 4 predicates; random byte soup; long inputs. Non-trivial: outcome ok or panic (text) / not err (tokens); '
         'distinct by input.',
    assumptions=['strings.ToLower("databases") comparison only involves ASCII case folding'],
    trusted_base=['models Mkdb/Model/Scan.lean, Mkdb/Model/Parse.lean hand-written from sql/go_scanner.go, sql/scanner.go, sql/parser.go'],
)
PROPS['C10'] = dict(
    lean=['Mkdb.Props.C10', 'Mkdb.Props.C10Text'],
    facts=['sql.tokens', 'const.sql.*', 'panics.sql.*'],
    runs=[dict(cmd='sql', proto='sql', timeout=1200)],
    search_seeds=1,
    claim='Proof: C10_statement_roundtrip - token level, ALL productions: for every well-formed statement (WFStmt, a decidable predicate; C10_wellformed_iff_parseable shows it describes exactly the statements some token list parses to) and every choice of the optional spellings (keyword texts in any case, AS before an alias or not, INNER written or not, ASC written or not, LIMIT before OFFSET or after, commas in GROUP BY, SHOW DATABASE / databases, empty column-list parentheses, any number of closing semicolons where the parser allows them, an EOF token or none), Parser.Parse on the rendered tokens returns exactly that statement - same kind, names, literals, operators, clause contents and order, join kinds and sort directions mapped to themselves; C10_no_list_cut: every comma separated list (select list, VALUES rows and the values of each, SET assignments, GROUP BY, ORDER BY, column definitions, INSERT columns) comes back with the same elements; C10_condition_roundtrip_any_shape, C10_join_chain_roundtrip, C10_sep_list_whole / C10_guarded_list_whole are the per-production statements; C10_std_literals_good: INT tokens of non-negative int64 decimals, STR, TRUE/FALSE are read back by Token.Val. Earlier theorems: C10_cond_roundtrip / C10_where_roundtrip - for EVERY parenthesis-free combination of '
          'comparison predicates with AND/OR (any number, any operands whose literals Token.Val reads back) the parser model returns '
          'the tree in which AND binds tighter than OR and consumes exactly those tokens; C10_and_tighter; C10_group_by_list - a comma '
          'separated GROUP BY list of n columns yields n columns (no silent cut). C10_no_silent_tail / C10_tail_refused - for EVERY token list, Parser.Parse returns a statement only if the statement production consumed the whole input up to closing semicolons and the end, and a statement followed by anything else is a syntax error: no clause behind a token the grammar does not know is ever dropped (the defect repaired in c4dbcb2; the judge checks the same on the implementation: sql:statement-tail-dropped). The text->token layer (scanner: keyword case, whitespace, comments) is covered by correspondence and judge only until its theorems land (C10Text): statement trees generated over the whole grammar, rendered with random keyword case, '
          'whitespace, comments, line breaks and optional keywords, two renderings each, exhaustive boolean shapes up to 4 predicates; '
          'the real parser\'s AST must equal the generated tree and equal the model\'s AST.',
    note='Trusted: Lean kernel, hand-written scanner/parser model, generator of expected trees in the harness (the tree side of the '
         'round trip), Unicode tables. Adjacent tokens without whitespace are exercised only by the tight renderings.',
    rule='as C09 (same run); a generated statement is one case per rendering; non-trivial: parses ok; distinct by input text.',
    assumptions=['identifiers that collide with keywords are rendered delimited'],
    trusted_base=['models Mkdb/Model/Scan.lean, Mkdb/Model/Parse.lean; expected-tree generator harness/cmd/h/sql.go'],
)

PROPS['C20'] = dict(
    lean=['Mkdb.Props.C20'],
    facts=['panics.cmd/console.*', 'skeleton.cmd/console.runTerminal'],
    runs=[dict(cmd='console', proto='console')],
    claim='Proof: theorems about the model of Terminal.handleKey (printable keys, Enter) and splitStatements (a left fold of a '
          'quote-tracking automaton): C20_enter_complete / C20_enter_incomplete / C20_semicolon_in_quote, and - when '
          'Mkdb/Proofs/Console.lean is in the audit list - split_wf (a buffer of well-formed statements separated by blanks splits into '
          'exactly those statements, a semicolon inside quotes does not split), run_eq_split (for every key sequence of printable keys '
          'and Enters the concatenation of all submissions equals the quote-aware split of everything typed with each Enter read as '
          'one space) and C20_submit (the console hands over exactly the typed statements, once each, in order). Since repair b94330c the theorems hold for entries of any length (they had carried keys.length <= 4096, the excluded point of which was a defect). Exercised, not proved: the key decoder below handleKey (a typed U+FFFD, repaired in 1ceb9e2). Three known findings bound the claim: control characters and line breaks inside a quoted literal are not preserved, SQL comments are not understood by the line joiner and the splitter. Tie: the model is '
          'compared with the real Terminal.ReadLine (in-package driver) on statement lists with semicolons / other quotes / spaces in '
          'literals under every-space and random line breakings, several statements per line, unfinished input, blank lines, ignored '
          'control keys and a line at the 4096-rune limit; the judge compares the submissions with the typed statement list.',
    note='Trusted: Lean kernel, hand-written console model, UTF-8 decoding of the byte stream, strings.TrimSpace (modelled as trimming '
         'Unicode White_Space). Domain: printable keys and Enter; editing keys, history and bracketed paste are outside the model; '
         'keys beyond the terminal\'s 4096-rune line limit are dropped by the terminal (stated bound).',
    rule='pairs of statements from a 19-statement pool (literals with ; " \' ` \\ and unicode) x {no breaks, break at every space}; '
         'random lists of 1-5 statements with random breakings; junk key streams. Non-trivial: a statement with a semicolon inside a '
         'literal; distinct by key stream.',
    assumptions=['keys are delivered as UTF-8; tab/LF are not printable keys and are ignored by the terminal'],
    trusted_base=['model Mkdb/Model/Console.lean hand-written from cmd/console/go_terminal.go'],
)

PROPS['C19'] = dict(
    lean=['Mkdb.Props.C19'],
    facts=['panics.cmd/csvimport.*', 'skeleton.cmd/csvimport.doBatchInsert', 'const.storage.maxValueSize'],
    runs=[dict(cmd='csv', proto='csv')],
    claim='Proof: C19_import (for every schema, mapping and record stream the table after the import is the table before it '
          'followed by the converted accepted records in input order), C19_bad_record_harmless (a rejected record neither '
          'prevents, alters nor duplicates the others), C19_one_row_each, C19_conv_field (the \\N marker is NULL; per-type '
          'conversion incl. BIGINT) and - when present in the audit list - C19_convert (every mapped column of an accepted row holds '
          'the converted field, every unmapped column is NULL) are Lean theorems about the model of colDataTypes / csvToSql / the '
          'doBatchInsert loop on top of the C08 row codec. The program around the modelled import loop is exercised, not proved: the driver runs the real main() twice in processes of their own on one table and then starts up as the console does; every record either run accepted must be there once, in input order (csv:program-rows-differ-after-restart; repair 52923f3: csvimport ran no recovery and never closed). Tie: an in-package driver runs the real colDataTypes and doBatchInsert on a '
          'real database; the record stream encoding/csv yields is passed to the model; per-record ok/err events and the final '
          'SELECT * are compared; the judge checks one row per accepted record, order, and independence of bad records.',
    note='Trusted: Lean kernel, hand-written model, encoding/csv (the model starts from its record stream), strconv.Atoi/ParseInt '
         '(modelled), strings.ToLower restricted to ASCII for the boolean words, the storage layer below Insert (C01/C08/C12).',
    rule='120 (thorough 960) imports: schemas of 1-6 columns over the four types (the first eight fix one column of each type), '
         'random mappings (subset, order, source indexes, occasionally an unknown column), separators , ; tab |, 0-12 records each: '
         'valid fields per type incl. boundary integers, \\N, unparsable numbers, wrong words, quoted fields with separators / '
         'quotes / newlines, rows over the 400-byte limit, short records, malformed quoting, empty lines. Non-trivial: at least one '
         'row stored; distinct by (schema, mapping, data).',
    assumptions=['source column indexes are non-negative (a negative -src-cols entry is a configuration error that crashes csvimport)'],
    trusted_base=['model Mkdb/Model/Csv.lean hand-written from cmd/csvimport/main.go'],
)

EXEC_FACTS = ['panics.engine.*', 'skeleton.engine.EvaluateSelect']
EXEC_NOTE = ('Trusted: Lean kernel, hand-written executor model (Mkdb/Model/Exec.lean), the scanner/parser model the SQL text goes '
             'through, sort.Slice (modelled as a stable insertion sort; comparisons with the implementation are insensitive to the '
             'order of ties, and the comparator is proved a strict weak order on typed columns), Go map iteration inside aggregation '
             '(not order relevant), storage below Fetch (C01).')
EXEC_ASSUME = ['float division in math.Round is exact for |sum| < 2^53', 'tables are typed: a column holds values of one type or NULL (C08)']
PROPS['C05'] = dict(
    lean=['Mkdb.Props.C05'], facts=EXEC_FACTS, sig_filter=r'exec:(select:.*|header|panic|hang|no-output)',
    runs=[dict(cmd='exec', proto='exec', args=['select'])],
    claim='Proof: C05_result_is_the_reference_meaning / C05_meaningful_query_is_answered / C05_answered_iff_meaningful - the model of EvaluateSelect is proved equivalent to the REFERENCE MEANING the judge evaluates on the implementation (Mkdb/Spec/Query.lean: Spec.meaning, written as list comprehensions, and Spec.satisfies, called with the same header the judge passes): for every table content and every single-table SELECT without aggregates whose WHERE is not a bare non-boolean literal, the executor answers (rows, hdr) if and only if the query has a reference meaning, its ORDER BY keys resolve and are comparable, and then rows = drop OFFSET / take LIMIT of the stably sorted meaning and Spec.satisfies holds - so a well-typed query is never refused and an answer is never anything but the meaning; the excluded points are witnessed (C05_bare_literal_where_is_answered: WHERE 5 is answered with no rows, an ill-typed query outside the quantifier of the property; C05_incomparable_keys_panic: a column mixing types, which typed storage excludes). Stage by stage: C05_select_correct (for every table and every single-table SELECT without aggregates the model of EvaluateSelect '
          'returns exactly filter(WHERE) -> project(select list) -> sort(ORDER BY keys resolved against the output header) -> '
          'drop OFFSET -> take LIMIT), C05_sort (sorted permutation), C05_no_order_by (insertion order), C05_cmp_strict_weak (the '
          'multi-key ASC/DESC comparator is a strict weak order on typed columns incl. NULL and strings), C05_limit_offset, '
          'C05_where, C05_or_of_and together with C10_cond_roundtrip (AND binds tighter than OR for every parenthesis-free '
          'condition). Tie: SQL text goes through the real scanner, parser, storage and executor on random tables (0-40 rows, small '
          'value domains for ties); rows and headers are compared with the model (tie-insensitively under ORDER BY) and the judge '
          'evaluates the reference meaning (Mkdb/Spec/Query.lean) on the implementation\'s rows; exhaustive boolean shapes up to 4 '
          'predicates.',
    note=EXEC_NOTE, assumptions=EXEC_ASSUME,
    rule='per database: SELECT *; all 15 AND/OR shapes of 1-4 well-typed predicates; 25 random queries (projection with repeats, '
         'qualifiers, aliases, expressions; WHERE; multi-key ORDER BY ASC/DESC; LIMIT/OFFSET in both orders). Non-trivial: ok with '
         '>= 1 row; distinct by SQL text.',
    trusted_base=['models Mkdb/Model/Exec.lean, Mkdb/Spec/Query.lean'],
)
PROPS['C06'] = dict(
    lean=['Mkdb.Props.C06'], facts=EXEC_FACTS, sig_filter=r'exec:(join:.*|panic|hang|no-output)',
    runs=[dict(cmd='exec', proto='exec', args=['join'])],
    claim='Proof: C06_result_is_the_reference_meaning / C06_meaningful_query_is_answered / C06_join_defined_iff - for every SELECT over any left-deep chain of INNER / LEFT / RIGHT joins (no aggregates) the model of EvaluateSelect answers if and only if the reference meaning (Spec.fromRows: the relational definition; Spec.meaning; Spec.satisfies - what the judge evaluates on the implementation) is defined with resolvable comparable sort keys, and the answer is the meaning as a multiset, sorted / cut as the clauses say; C06_sorted_keys_of_permutations_agree is why the judge may compare key sequences although the executor sorts the rows in another order. C06_join - for every left-deep chain of INNER/LEFT/RIGHT joins over any table contents, whenever the relational '
          'definition (pairs satisfying ON, plus each unmatched left/right row once padded with NULLs) is defined, the nested-loop '
          'join of the model returns the same header and a permutation of exactly those rows; C06_inner/left/right give the exact '
          'equations in loop order; C06_ambiguous, C06_qualified, C06_alias cover column resolution (ambiguous unqualified names are '
          'rejected; alias replaces the table name; self-join under two aliases). C06_padding_null_in_an_ordering_comparison: <, <=, >, >= with an operand that is NULL - the NULL an outer join padded with included - are false, never an error (repair aa64742), so a chain of outer joins no longer fails as soon as one row has no partner. Tie: join queries as SQL text on real storage over '
          'three tables with duplicate and missing keys, empty sides, self-joins, chains of two joins, AND/OR ON-conditions; exact row '
          'order compared with the model, multiset compared with the relational definition by the judge.',
    note=EXEC_NOTE, assumptions=EXEC_ASSUME,
    rule='per database 14 random two-table joins (4 join spellings x 4 ON shapes), 5 fixed alias / ambiguity cases, 6 chains of two '
         ' [round 2] plus four narrow tables of 1, 2, 3 and 5 columns and 15 joins / join chains over tables of every width on either side (a row merge that shares a backing array only shows when the left row has spare capacity). '
         'joins. Non-trivial: ok with >= 1 row; distinct by SQL text.',
    trusted_base=['models Mkdb/Model/Exec.lean, Mkdb/Spec/Query.lean'],
)
PROPS['C07'] = dict(
    lean=['Mkdb.Props.C07'], facts=EXEC_FACTS, sig_filter=r'exec:(aggregate:.*|panic|hang|no-output)',
    runs=[dict(cmd='exec', proto='exec', args=['agg'])],
    claim='Proof: C07_result_is_the_reference_meaning / C07_join_result_is_the_reference_meaning / C07_meaningful_query_is_answered / C07_join_meaningful_query_is_answered - for SELECTs with COUNT(*) / COUNT(col) / GROUP BY (with or without aggregates; AVG under the data condition of the known finding: equal values per group) over one table or any chain of joins, what the model of EvaluateSelect answers is the reference meaning the judge evaluates (Spec.meaning: groups = distinct tuples of grouping values of the SOURCE rows, counts per group, one row of zeros for empty input without GROUP BY), and a query with a meaning is answered; C07_aggregate_rows_is_the_grouping_of_the_meaning is the core; C07_groups_do_not_depend_on_row_order. The specification was TIGHTENED on the way (a non-aggregate element of a grouping query has a meaning only if it evaluates on every row of its group and is constant on it - before, the reference took the value of the first row, which made the judge able to raise a false alarm on SELECT v < x, count(*) and on an ungrouped expression over a join; C07_expression_next_to_aggregate_has_no_meaning, C07_ungrouped_expression_has_no_meaning). C07_one_group_per_key, C07_group_membership, C07_partition (exactly one group per distinct tuple of grouping values; '
          'a group is exactly the rows with its key), C07_count_star, C07_count_col, C07_order_independent (groups and counts do not '
          'depend on row order), C07_one_row_per_key (one result row per distinct tuple). AVG is a KNOWN FINDING: the code keeps a '
          'cumulative average rounded after every row; the full statement "AVG = round(sum/count), order independent" is false of '
          'code and model (C07_avg_counterexample, replayed on the implementation by corpus/C07/P9), C07_avg_partial is what holds; '
          'the repair cannot pass the unedited test suite (see KNOWN_FINDINGS.txt). C07_group_by_without_aggregate: with GROUP BY and no aggregate in the select list the result has exactly one row per distinct grouping key, the first row of each group, in first-occurrence order (repair 16148c5; the reference meaning had copied the early return of the code). AVG is computed in exact integer arithmetic (repair a5d183b), which is what the model runningAvg always assumed. Tie: aggregate queries as SQL text on real '
          'storage with colliding printed forms ((1,11)/(11,1)), GROUP BY by name / qualifier / alias with comma lists, COUNT over '
          'NULL-bearing columns, on top of WHERE and JOIN; the judge recomputes groups, counts and exact averages from the source rows.',
    note=EXEC_NOTE, assumptions=EXEC_ASSUME,
    rule='per database 5 ungrouped aggregate queries, 27 GROUP BY queries (9 grouping column sets x 3 spellings), 2 grouped joins. '
         ' [round 2] plus a table of adversarial grouping values (strings containing | ; , quotes of type names, "<nil>", "NULL", numerals; NULLs; pairs that collide under any separator-joined key) grouped 8 ways, and a lone count(col) per column with and without WHERE over NULL-bearing data. '
         'Non-trivial: ok with >= 1 row; distinct by SQL text.',
    trusted_base=['models Mkdb/Model/Exec.lean, Mkdb/Spec/Query.lean'],
)
PROPS['C18'] = dict(
    lean=['Mkdb.Props.C18', 'Mkdb.Props.C09'], facts=EXEC_FACTS + ['skeleton.engine.Session.ExecQuery'], sig_filter=r'exec:(panic|hang|no-output)|sess:(panic|hang)',
    runs=[dict(cmd='exec', proto='exec', args=['confused']), dict(cmd='sess', proto='sess', corpus='C17')],
    claim='Proof (partial): C18_no_panic_partial - for every database whose rows have one value per column (NULLs, any types) and '
          'every SELECT of a shape the parser produces, the model of EvaluateSelect returns rows or an error value; the only panic '
          'left is the ORDER BY comparator meeting two non-NULL values of different types in one column, excluded on typed columns by '
          'C18_sort_safe; C09_total covers the front end. C18_dml_ddl_never_crash: for every database state related to a plain database (catalog invariant, any number of tables of any size and depth) and every CREATE TABLE / INSERT / UPDATE / DELETE the parser can produce that does not address the two catalog tables by name, the engine model returns ok or an error value - no panic, no unmodelled path, no fuel exhaustion (how the model would show a hang) - and a refused statement leaves the log alone (C18_dml_ddl_total); side conditions: literals that fit their Go types, 64-level fuel and offsets below 2^63 for INSERT and CREATE. '
          'C18_session_never_crashes / C18_session_statement_never_crashes: the session model (engine/session.go: no database selected, a refused USE or CREATE DATABASE, a selected database) run on ANY list of statements from the empty session, going on after every error, never returns its crash outcome, because every statement - accepted, refused before a change, refused at a later row (the known finding of C14) - keeps the per-database invariant DbInv (C18_every_statement_keeps_the_database_invariant), so the next statement meets the hypotheses of C18_dml_ddl_never_crash again; C18_plain_histories_never_crash shows the side conditions are met by whole families of histories. Not covered by a theorem: statements addressed at sys_pages / sys_schema themselves (correspondence only); SELECT at session level is a stub in the session model (its evaluation: C18_no_panic_partial). Limit of the claim: the theorems bound the recursion of the model by fuel linear in the input, the Go stack is finite - a statement of millions of nested OR / AND terms (25 MB of text) overflows it in the parser, two million terms in the evaluator; no check generates inputs of that size, the claim is for inputs whose nesting the Go stack holds (about a million terms). Tie: panic-site inventory of '
          'engine/*.go re-extracted every run; type-confused, NULL-bearing and ill-formed queries run under recover() and a watchdog.',
    note=EXEC_NOTE, assumptions=EXEC_ASSUME,
    rule='per database 46 fixed ill-typed / ill-formed queries (AVG over varchar/bool/NULL, ORDER BY over NULLs, unknown / ambiguous / '
         'duplicated columns, bare operands, non-boolean ON) and 30 random type-confused predicates / sorts, on tables with and '
         'without NULLs and empty tables. Non-trivial: ok with >= 1 row; distinct by SQL text.',
    trusted_base=['models Mkdb/Model/Exec.lean'],
)

STORE_FACTS = ['skeleton.storage.*', 'panics.storage.*', 'skeleton.engine.Evaluate*', 'storage.callers.*', 'storage.file_writers',
               'layout.WALEntry.*', 'layout.fileStore.*'] + STORAGE_CONSTS
STORE_NOTE = ('Trusted: Lean kernel (axioms propext, Classical.choice, Quot.sound only), the hand-written models, the harness and hooks, '
              'the OS file system behaving as a byte array per file with fsync making earlier writes durable. Theorems are about the models; '
              'the code is covered through the correspondence and the judge, which are bounded.')
PROPS['C01'] = dict(lean=['Mkdb.Props.C01'], facts=STORE_FACTS, runs=[dict(cmd='db', proto='db', args=['c01'])],
    sig_filter=r'db:(contents-differ:live|schema-differs:live|row-ids-not-increasing:live|row-id:live|panic:live|hang:live|select-failed:live|valid-statement-refused:live)',
    
    claim='Proof (partial): C01_step / C01_history - for every history of tree operations of any length (inserts with whatever leaf splits, internal splits at any depth and root growths they cause, value changes, deletions) what a scan of the tree sees is exactly the plain list the history implies: accepted inserts appended in order, changed values in place, tombstones set; C01_select_sees_live_rows; C01_ids_strictly_increasing - row ids strictly increasing hence unique; C01_no_resurrection - a deleted row stays deleted through every later operation. C01_forest_* - trees sharing one file never share a page and an operation on one leaves the others alone. These are about the levels model of storage/btree.go (Mkdb.Tree); C01_heap_history / C01_heap_history_scan carry them to the heap model that is compared with the code: for every store whose page heap holds a well-formed tree and every history of inserts, value changes and deletions, the insertKeyHeap / findLeaf+updateCellAt / tombstone code of the heap model itself ends holding exactly the levels tree and scanRight returns its live cells (proved refinement, about 3500 lines, any depth up to the 64-level fuel). C01_statement_insert: at statement level, under the catalog invariant Cat (page table, sys_schema and user tables held as disjoint well-formed trees, page-table rows naming exactly them, row ids below the counter), RelationService.Insert finds the table through the catalog, appends the row under the next row id with whatever splits, re-points the catalog exactly when the root moved, logs exactly the records the model logs, leaves every other table alone and re-establishes Cat; C01_statement_unknown_table. C01_statement_select / _delete / _update: likewise Fetch returns the decoded live rows in scan order with the declared columns, MarkDeleted and Update change exactly the one row, log exactly one record and touch no other page or table, and refusals change nothing. C01_statement_create_table: CREATE TABLE of a new name adds exactly one page-table entry and one sys_schema row per declared column (read back as declared), leaves every other table and its columns alone, and its flush leaves no dirty page and the header on disk equal to the one in memory. END TO END: C01_insert_refines_plain_model, C01_delete_refines_plain_model, C01_update_refines_plain_model - whenever the plain in-memory model (Spec/Tables.lean, the very specification the judge evaluates on the implementation) accepts a multi-row INSERT, a DELETE or an UPDATE with its WHERE, the evaluator of the engine model (statement loop, catalog lookups, WHERE evaluation, row codec, B+ tree, log batch) succeeds and the resulting store abstracts - table by table, declared columns and decoded live rows in order - to the result of the plain model. C01_every_statement_refines_plain_model: one theorem over parsed statements - under the relation Rel (abstraction to the plain database, no stale sys_schema rows, page cache filed) every CREATE TABLE, INSERT, UPDATE or DELETE the plain model accepts succeeds in the engine model and Rel holds again with the plain model result; C01_create_table_refines_plain_model gives the new catalog exactly; C01_session_runs_evalStmt: the dispatcher of these theorems is the one of the session model that the sess harness compares with Session.ExecQuery. BASE CASE: C01_create_database_establishes_the_invariants - the store CREATE DATABASE produces is computed (createDB [] {} = newStore, kernel-checked) and satisfies every invariant the other theorems assume (Cat, Abs with the empty plain database, Rel, PtSelf, FreshM, Ckpt); C01_every_history_from_create_database - so every history from CREATE DATABASE on is covered; the hand-written example stores of the earlier files turned out not to be outputs of the model (same invariants, different bytes), the non-vacuity examples now run on computed stores. Not covered by a theorem: the page codec under the heap (C12 separately), SELECT beyond SELECT * (C05-C07 on the executor model), statements on the catalog tables themselves. Tie: random DDL/DML histories over up to 12 tables through RelationService on real files, with page flushes and reloads at random points and histories deep enough for internal-node splits; after every statement the outcome, at intervals SELECT * of every table, the catalog, and the complete page heap are compared with the heap model (page by page: cells, flags, sibling links, LSNs, dirty bits, header), and the judge compares every table with the in-memory spec of the statements (Spec/Tables.lean) and checks row ids.',
    note=STORE_NOTE,
    rule='1 deep history (1400 rows in one table, ~310 leaves, internal split; thorough also 2900 rows) + 12 (thorough 96) histories of 5-60 statements (thorough: every 8th has 260 statements over up to 12 tables of up to 11 columns), multi-row inserts of 1-12 rows, values up to the 400-byte row limit, 12% updates, 18% deletes, flush 10% / reload 5% per statement. Non-trivial: a history in which some table split a leaf; distinct by operation text.',
    assumptions=['row ids only ever arrive in ascending order (they come from the shared counter or from log replay)'],
    trusted_base=['models Mkdb/Model/Tree.lean (levels), Store.lean (heap), Engine.lean; cross-check Store.ghostAgrees; hooks VerifDump/VerifScan/VerifTables'])
PROPS['C02'] = dict(lean=['Mkdb.Props.C02'], facts=STORE_FACTS, runs=[dict(cmd='db', proto='db', args=['c02']), dict(cmd='wal', proto='wal')],
    sig_filter=r'wal:.*|db:(contents-differ:after-recovery|recovery-failed:.*|valid-statement-refused:after-recovery|row-id:after-recovery|row-ids-not-increasing:after-recovery|schema-differs:after-recovery|panic:after-recovery|hang:after-recovery|select-failed:after-recovery)',
    
    claim='Proof (partial): C02_recovery_reconstructs / C02_recovery_idempotent / C02_clean_shutdown - for every log of page-local records with increasing LSNs, every initial state and EVERY placement of page flushes (each page of the data file is the cached page as of an arbitrary earlier moment), the redo rule of WALBatch.replay (skip a record whose LSN is not newer than the page) reproduces exactly the state the acknowledged statements had built, and replaying again changes nothing; C02_log_roundtrip - the bytes wal.flush appends are read back by wal.read as exactly the records written (byte-level model). C02_concrete_replay_is_the_redo_rule / C02_concrete_recovery_reconstructs: on UPDATE and DELETE records the concrete recovery model (Engine.replayAll, the one compared with the implementation) is proved to be that redo rule page by page, so the schedule theorem is a theorem about it. C02_redo_of_unflushed_inserts: for INSERT statements (tree inserts with splits, root moves, catalog re-pointing) replaying the logged records on the store before them reproduces the live tables, catalog, row-id counter and allocation frontier; C02_recovery_of_a_flushed_database_changes_nothing: already-applied records (page LSN not older, or key present) are skipped or tolerated. C02_acknowledged_statements_survive_an_unflushed_crash (end to end): for any list of INSERT / DELETE / UPDATE statements the plain in-memory model accepts, replaying the log they wrote on the store as it was before them ends in a store that abstracts to the plain database of the live run, with the live row-id counter, allocation frontier and catalog root; C02_mixed_history_is_redone at the storage level. C02_crash_after_a_checkpoint: the same with a log that is never truncated - the start database may carry any records already applied on it and behind its counters, and the WHOLE log is replayed; C02_rounds_keep_the_checkpoint_invariant / C02_rounds_no_recovery_fails: any number of rounds of statements;flush and statements;crash;recovery (Engine.recover: replay, LSN bump, two flushes, any page write orders) from a checkpointed database end in a checkpointed database for the plain database of ALL acknowledged statements, no recovery in such a history fails, and afterwards the whole log is applied (so recovery run again changes nothing); C02_never_reuses_a_row_id: for ANY store, log and placement of flushes (a torn flush included) a replay that runs to its end leaves the row-id counter at least at the key of every logged insert, redone or skipped (the defect repaired in fa35ced). C02_rounds_from_create_database / C02_rounds_from_create_table: the rounds start from the computed stores after CREATE DATABASE and after CREATE TABLE (a general theorem that the checkpoint invariant survives CREATE TABLE is missing: concrete computation only). Not covered by a theorem: a crash with pages of the current round flushed and the round containing inserts that split (only UPDATE / DELETE records under arbitrary flush placements, C02_concrete_recovery_reconstructs), CREATE TABLE as a round kind - for those the concrete model Mkdb.Engine.recover (same LSN rule, same tree code as C01) is compared with the implementation. Tie: per case a random DDL/DML history through RelationService with the flush timer replaced by explicit flushes at random points (never / sometimes / always), a crash (cache dropped, files kept) after random statements, the real InitStorage in a child process, optionally a second recovery, then SELECT * of every table, heap dump and further statements; the model must produce the same heap, log and outcomes, the judge compares every table with the in-memory spec of the acknowledged statements and checks row ids stay unique and increasing.',
    note='Trusted: Lean kernel (axioms propext, Classical.choice, Quot.sound only), the hand-written models, the harness and hooks, the OS file system behaving as a byte array per file with fsync making earlier writes durable. Theorems are about the models; the code is covered through the correspondence and the judge, which are bounded.',
    rule='12 (thorough 96) histories of 5-40 statements over up to 4 tables with flush probability in {0,15,40,100}%, crash probability in {10,25,50}% per statement, failing statements mixed in; wal codec: 40 (thorough 320) record lists, every cut position of short logs, random cuts and damaged bytes otherwise. Non-trivial: a history with at least one crash after an unflushed change; distinct by operation text.',
    assumptions=['a crash loses the page cache and nothing else: log records are fsynced before a statement returns (forceSync) and the data file is only written by flushPages', 'InitStorage runs alone (no concurrent session)'],
    trusted_base=['models Mkdb/Model/Store.lean, Engine.lean (recover), Wal.lean, Redo.lean; hooks VerifFlush/VerifAbandon/VerifDump/VerifWal*'])
PROPS['C11'] = dict(lean=['Mkdb.Props.C11'], facts=STORE_FACTS, runs=[dict(cmd='db', proto='db', args=['c01'], corpus='C11'), dict(cmd='db', proto='db', args=['c02'])],
    sig_filter=r'db:shape:.*', 
    claim="Proof: C11_every_history - after any history, of any length, of insertions with ascending keys, value changes and deletions starting from a freshly created table, the tree satisfies the invariant Inv of Spec/TreeInv.lean, which is the C11 statement clause by clause: no node over capacity, keys strictly ascending within and across leaves, every separator the lowest key of the subtree to its right, every level's child pointers exactly the nodes of the level below in order (all leaves at one depth, one parent per node), no page twice and all below the allocation frontier, the doubly linked leaf chain equal to the leaves in tree order; C11_insert_preserves covers leaf split, separator propagation, internal splits at every depth and root growth by induction over the levels; C11_lookup_finds_every_key - in a well-formed tree every stored key is found by findCell's routing from the root. C11_heap_insert_is_levels_insert, C11_heap_insert_refusals, C11_heap_lookup_finds_every_key: insertLeaf/insertInternal/findLeaf of the heap model, on pages addressed by offset, are proved equal to the levels operations for every store, depth and key (refinement), so the invariant theorems hold of the heap model that is compared with the implementation page for page; C11_cross_check_never_fires. The tie to the code: every insert the heap model performs - and the heap model is compared page for page with the implementation - is re-done by insertAppend on the tree read out of the heap and every page, the root and the allocation frontier are compared (Store.ghostAgrees; a disagreement breaks the correspondence); independently the judge walks the implementation's own page graph from every table root with the executable shape checker Spec/Shape.lean (both chain directions, depth, bounds, reachability, lookup of every key).",
    note=STORE_NOTE,
    rule='as C01 (same histories) plus the crash-and-recovery histories of C02 (a reload in real use always runs start-up recovery over the whole log; the trees it rebuilds are shape-checked right after every recovery): every insert in them is cross-checked against the levels model (about 1500-9000 inserts per quick run, including the first internal-node split in the deep history), the shape checker runs on every heap dump (every 7 statements and at the end). Non-trivial: a history with a leaf split; distinct by operation text. Internal splits at depth >= 2 need more than 190000 rows and are covered by the theorem only.',
    assumptions=['keys arrive in ascending order per tree (engine: shared counter; replay: logged ids)'],
    trusted_base=['models Mkdb/Model/Tree.lean, Store.lean; Spec/TreeInv.lean (invariant), Spec/Shape.lean (executable checker on dumps)'])
PROPS['C14'] = dict(lean=['Mkdb.Props.C14'], facts=STORE_FACTS, runs=[dict(cmd='db', proto='db', args=['c14'])],
    sig_filter=r'db:(failed-statement-changed-table|failed-statement-applied-row-prefix|failed-create-left-table|invalid-statement-accepted|cache-full-statement-.*|contents-differ:.*|schema-differs:.*|select-failed:.*|recovery-failed:.*|panic:.*|hang:.*|row-id:.*|row-ids-not-increasing:.*)', 
    claim='Proof (partial): about the heap model of storage/relation.go + engine/*.go, with "changes nothing" = SameData (every visible page, every dirty bit, '
          'the data file, the header on disk, the locating header fields; counters may advance, pages may be pulled into the cache) and the log untouched, hence also after '
          'a restart: C14_insert_first_row (unknown table, column-count mismatch, type mismatch, out-of-range integer, duplicate key), C14_insert_oversized_row, '
          'C14_create_table (duplicate table, out-of-range column length, catalog row too large - table or column name too long), C14_delete; '
          'C14_refused_statement_plain_model: one theorem over parsed statements against the plain in-memory model - every refusal that happens before a change (CREATE TABLE of an existing or catalog name or with a column length beyond 32 bits; INSERT into an unknown table or refused at its first row; UPDATE with a column source, of an unknown table, with a WHERE that cannot be evaluated or whose first selected row cannot be rewritten; DELETE of an unknown table or with a WHERE that cannot be evaluated) returns an error, logs nothing and leaves the store related to the SAME plain database through the SAME catalog trees; C14_delete_refused_plain_model / C14_update_refused_plain_model add that no page and no header field differs; C14_update_kth_row_plain_model states the known finding for UPDATE exactly (first k-1 selected rows stay rewritten, nothing logged). C14_insert_refused_plain_model: against the plain in-memory model - an INSERT the plain model refuses at its first row (or into an unknown table) is refused by the engine model and the store still abstracts to the same plain database; C14_insert_kth_row states exactly what happens when the k-th row (k >= 2) is refused: error returned, nothing logged, but the rows before it stay applied in the '
          'cache - the KNOWN FINDING db:failed-statement-applied-row-prefix (same in the implementation; not repaired). Not covered by a theorem: statement-level UPDATE '
          '(update_err needs a uniqueness hypothesis), and CREATE TABLE errors that could only arise on a damaged catalog. The proof attempt for CREATE TABLE produced a Lean '
          'counterexample that was a real defect (long table/column names; repaired, a86c798); C14_create_table_long_column_witness is its kernel-checked regression. '
          'Tie: every kind of failing statement with the invalid row at every position k of multi-row statements, failing UPDATE/DELETE/CREATE TABLE (duplicate, over-long '
          'lengths, over-long names at the k-th column), through RelationService; SELECT * of all tables and sys_schema before and after, after reopen and after crash+recovery; '
          'model compared page by page; the judge requires the tables and catalog of the spec before the statement.',
    note=STORE_NOTE,
    rule='10 (thorough 80) histories of 4-9 failing statements each, n in 1..10 rows with the invalid one at a random position, nine failure families; '
         ' [round 2] families added: WHERE of DELETE/UPDATE not evaluable at the k-th row (NULL meets a comparison), CREATE TABLE whose table name or k-th column name makes a catalog row exceed the cell limit. '
         'each followed by SELECT * of every table and, at random, reopen or crash+recovery. Non-trivial: a failing multi-row statement with k >= 2; distinct by operation text.',
    assumptions=['statements run one at a time (C13)'],
    trusted_base=['models Mkdb/Model/Store.lean, Engine.lean; Spec/Unchanged.lean'])

PROPS['C03'] = dict(lean=['Mkdb.Props.C03'], facts=STORE_FACTS, runs=[dict(cmd='db', proto='db', args=['c03']), dict(cmd='wal', proto='wal')],
    sig_filter=r'(db:(image-.*|panic:.*|hang:.*)|wal:.*)',
    claim='Proof (partial): C03_cut_is_prefix - for every list of records and EVERY byte position at which the log file is cut, wal.read (byte-level model) returns exactly the records whose frames lie completely inside the cut: a maximal prefix, never half a record, never an error, flagged torn exactly when the cut is inside a frame; C03_append_after_cut - after the reader truncated the torn tail, later appends are read back right behind the surviving prefix; C03_roundtrip. C03_insert_crash_leaves_row_prefix / C03_delete_crash_leaves_row_prefix / C03_update_crash_leaves_row_prefix: after any history of acknowledged statements, a crash that cuts the append of a multi-row INSERT, a DELETE or an UPDATE after ANY number k of its records is recovered (replay of the surviving log by the concrete recovery model) to a store that abstracts to a plain database in which the table of the statement holds one of the row-prefix states of Spec.rowPrefixStates - the list the judge of the crash-image runs uses - every other table is untouched and the row-id counter has advanced by exactly the rows applied; a root-moving insert logs two records and the cut between them is covered (the INSERT record alone re-points the catalog); C03_log_cut_is_statement_prefix at the storage level for any mix of row operations. Scenario of these theorems: nothing of the history was flushed since the start state (flushes between earlier statements: C02/C04). Not covered by a theorem: the composition of the byte-level and the record-level halves through wal.read of the concrete bytes of these very records (the encoder of the engine records is compared with the model by the wal run). Tie: crash images of data/ taken by a hook immediately before every length write, body write and fsync of the log during multi-row INSERT/UPDATE/DELETE statements (log cut at the last write and at the last fsync), and, per statement, 3 (thorough 8) images whose log is cut at an ARBITRARY byte position inside what the statement appended - one of them one byte short of the end - for which the model predicts the surviving records with the byte-level reader model of C03_cut_is_prefix applied to the encoding the model gives its own records (so the byte-level and the record-level halves are composed on concrete bytes on every run); real InitStorage in a child process on each image, SELECT * of every table, then probe statements; the judge requires recovery to succeed, every table to equal one of the row-prefix states of the spec, and the probes to behave as on an uncrashed database in that state; the wal run compares encoder, reader and file truncation byte for byte with the model.',
    note='Trusted: Lean kernel (axioms propext, Classical.choice, Quot.sound only), the hand-written models, the harness and hooks, the OS file system behaving as a byte array per file with fsync making earlier writes durable. Theorems are about the models; the code is covered through the correspondence and the judge, which are bounded.',
    rule='6 (thorough 48) histories, each with crash images at every log write/sync of 2-4 multi-row statements (typically 20-60 images per history) and 3 probe statements per image; wal: as C02. Non-trivial: an image whose log ends inside the statement; distinct by image operation text.',
    assumptions=['a write(2) on the log may be torn at any byte; fsync makes earlier writes durable', 'the data file is not written while the statement runs (C13)'],
    trusted_base=['models Mkdb/Model/Wal.lean, Store.lean, Engine.lean; hooks verifPoint(wal.len|wal.body|wal.sync), VerifWalParseFile'])
PROPS['C04'] = dict(lean=['Mkdb.Props.C04'], facts=STORE_FACTS, runs=[dict(cmd='db', proto='db', args=['c04'], timeout=3000)],
    sig_filter=r'db:(fimage-.*|contents-differ:after-recovery|recovery-failed:.*|schema-differs:after-recovery|row-id:after-recovery|row-ids-not-increasing:after-recovery|select-failed:after-recovery|panic:.*|hang:.*)',
    claim='Proof (partial): C04_torn_flush_recovers - the data files a crash inside flushPages can leave are those in which every page is the cached page as of some earlier moment; for every log of page-local records, every such file and every flush history before it, replay reproduces the acknowledged state; C04_log_cut with C04_write_ahead_needed - the write-ahead rule (no page newer than the log) is sufficient and necessary. Not covered: flushes torn between the pages of a split or before the header write that persists the allocation frontier - there the implementation does lose data (KNOWN FINDING db:fimage-(loss|recovery-failed):*:alloc1, see KNOWN_FINDINGS.txt) - and a second crash inside the flush that ends recovery. The header counters, which the page-level theorem does not speak of, are covered for the row-id counter by C02_never_reuses_a_row_id (any torn flush), and judged on every recovered image (the counter against the largest row id in use: db:fimage-row-id-counter-behind, the defect repaired in fa35ced); statements probed after an image recovery include INSERTs. Tie: for flushes triggered explicitly, by CREATE TABLE and by shutdown, a hook copies data/ immediately before every page write and before the header write, in the page order the Go map iteration produced; each image is recovered by the real InitStorage in a child process and every table is compared with the spec of the acknowledged statements; the model reproduces each torn image from the observed write order and must recover to the same heap.',
    note='Trusted: Lean kernel (axioms propext, Classical.choice, Quot.sound only), the hand-written models, the harness and hooks, the OS file system behaving as a byte array per file with fsync making earlier writes durable. Theorems are about the models; the code is covered through the correspondence and the judge, which are bounded.',
    rule='8 (thorough 64) histories with 2-5 instrumented flushes each, one image per page write and per header write (10-40 images per flush). Non-trivial: an image with at least one but not all pages written; distinct by image operation text. Images are classified by flush kind and by whether pages were allocated since the last header write (alloc0/alloc1).'
         ' [round 2] now 5 (thorough 40) histories; flushes inside recovery are instrumented too (child process leaves an image before each of its page/header writes: the second crash); on every recovered image one more acknowledged statement (DELETE of all rows of a table), a further crash and recovery, and the tables again. Images taken before the first page write are classed apart (":nothing-written"). ',
    assumptions=['page writes are atomic (4096-byte WriteAt) and ordered as issued; the header write is atomic'],
    trusted_base=['models Mkdb/Model/Redo.lean, Store.lean (tornFlush), Engine.lean; hooks verifPoint(page.write|hdr.write)'])

PROPS['C16'] = dict(lean=['Mkdb.Props.C16', 'Mkdb.Props.C15'], facts=STORE_FACTS + ['lru.capacity', 'skeleton.storage.LRUCache.*'], runs=[dict(cmd='db', proto='db', args=['c16'])],
    sig_filter=r'db:(cache-size-dependent|contents-differ:live|panic:live|hang:live|select-failed:live)',
    claim='Proof (partial): C16_capacity_independent / C16_equals_cacheless - for every pair of capacities, every initial cache content meeting the invariant (distinct resident keys, within capacity, a clean resident page equals its disk image) and every sequence of page reads, page changes and flushes that neither cache refuses, all reads return the same contents as with no cache at all and the final logical contents agree; C16_refusal_only_when_full_of_dirty - refusal happens exactly on a miss with the cache full of dirty pages (the precondition of the property); C16_flush_makes_durable; C16_policy_is_the_lru_model - the recency/eviction behaviour is that of the LRU model of C15, which is compared with storage/lru.go on every run. Not covered by a theorem: Go pointer aliasing (a page object evicted while a caller still holds and later changes it), which the model cannot exhibit. Tie: the same random workload is run through RelationService with the cache replaced by small ones (capacities from a few times the tree height up) and with the default; statement outcomes, SELECT * of every table and the heap after a final flush are compared (runs that hit ErrCacheFull are outside the precondition and are skipped from the point of refusal).',
    note='Trusted: Lean kernel (axioms propext, Classical.choice, Quot.sound only), the hand-written models, the harness and hooks, the OS file system behaving as a byte array per file with fsync making earlier writes durable. Theorems are about the models; the code is covered through the correspondence and the judge, which are bounded.',
    rule='5 (thorough 40) workloads of 30-120 statements, each re-run at 4-6 capacities between 6 and 64 pages and at 10000; thorough adds workloads with trees of depth 3. Non-trivial: a run in which pages were evicted and re-read (resident set smaller than the page count); distinct by workload text and capacity.',
    assumptions=['page objects are not used after the statement that fetched them returns'],
    trusted_base=['models Mkdb/Model/PageCache.lean, LRU.lean; hook VerifOpenRelation(cacheCap)'], shrink=False)
PROPS['C17'] = dict(lean=['Mkdb.Props.C17'], facts=['skeleton.engine.Session.*', 'panics.engine.Session.*', 'skeleton.storage.OpenRelation', 'skeleton.storage.CreateDB', 'skeleton.storage.newFileStore', 'skeleton.storage.fileStore.close'],
    runs=[dict(cmd='sess', proto='sess')], sig_filter=r'sess:.*',
    claim='Proof (partial by nature for the schedule quantifier): C17_frame - every DDL/DML/SELECT/SHOW statement changes at most the selected database, for every session state and statement; C17_no_database_selected; C17_create_existing, C17_use_missing - errors that leave the session exactly as it was (the previously selected database stays selected and open); C17_create_new; C17_use_current - re-selecting the current database changes nothing; C17_use_other - only the previously selected database is touched (closed); C17_names_are_the_created_ones - after any history the databases are exactly those whose CREATE DATABASE returned ok; C17_show - SHOW DATABASES returns a permutation of them. C17_restart_preserves_every_database / C17_restart_after_any_history: for a session satisfying the invariant (from the empty session after ANY history meeting the per-statement side conditions), restart - close the selected database, start-up recovery of every database, re-open - succeeds, no recovery fails, every database abstracts to the same plain database as before and the session goes on accepting statements; C17_use_changes_no_database / C17_any_number_of_uses: USE any number of times, back and forth, re-selecting, naming missing databases, changes the contents of no database (the database left is flushed and re-opened from its file: the invariant DbInv carries that every clean cached page equals its disk copy); C17_statements_change_only_the_selected_database, C17_create_database_adds_an_empty_database, C17_accepted_statement, C17_contents_are_what_a_reader_sees (what Fetch returns is the plain database). Not covered by a theorem: the real flush timer of an abandoned relation service (exercised by the sess runs), a crash - rather than a close - before the restart (C02 per database). C17_invalid_name_refused: a name that is not one plain directory name (., .., a path separator or NUL inside, more than 255 bytes) is refused by CREATE DATABASE and USE with an error that changes nothing (repair 6f7783e). Tie: random sessions over 2-4 databases through engine.Session.ExecQuery with real pauses longer than the flush interval and restarts (close, InitStorage, new session); outputs and per-database SELECT * are compared with the model, and the judge checks isolation against a per-database in-memory spec.',
    note='Trusted: Lean kernel (axioms propext, Classical.choice, Quot.sound only), the hand-written models, the harness and hooks, the OS file system behaving as a byte array per file with fsync making earlier writes durable. Theorems are about the models; the code is covered through the correspondence and the judge, which are bounded.',
    rule='sessions of 20-80 statements; CREATE DATABASE / USE (existing, missing, current, mixed case) / SHOW DATABASES interleaved with DDL/DML; pauses of 120-250 ms; 0-3 restarts. Non-trivial: a session that switches databases at least twice with data in both; distinct by session text.'
         ' [round 2] plus 14 scripted sessions: every statement kind after a refused USE / refused CREATE DATABASE, with and without a database selected before. ',
    assumptions=['one session at a time (the engine has no concurrent sessions)'],
    trusted_base=['model Mkdb/Model/Session.lean over Engine.lean/Store.lean'])
LOCK_FACTS = ['skeleton.storage.RelationService.Close', 'skeleton.storage.fileStore.close', 'skeleton.storage.fileStore.stopFlusher', 'skeleton.storage.fileStore.startFlusher', 'skeleton.engine.Evaluate*', 'skeleton.storage.fileStore.flushPages', 'skeleton.storage.newFileStore', 'skeleton.storage.RelationService.CreateTable',
              'skeleton.storage.RelationService.StartTxn', 'skeleton.storage.RelationService.EndTxn', 'storage.file_writers', 'storage.callers.*', 'skeleton.storage.wal.flush',
              'const.storage.pageFlushInterval', 'skeleton.storage.fileStore.open', 'skeleton.storage.OpenRelation', 'skeleton.storage.CreateDB', 'storage.newFileStore.autoFlush']
PROPS['C13'] = dict(
    lean=['Mkdb.Props.C13'], facts=LOCK_FACTS + ['lock.*'], runs=[dict(cmd='lock', proto='lock', race=True)], sig_filter=r'lock:.*', shrink=False, search_tier='quick', search_seeds=2,
    claim='Proof (partial by nature): C13_exclusion - in every reachable state of every schedule of the lock model (reader/writer lock, '
          'session goroutine: begin -> change* -> log -> end, flusher goroutine: lock -> page writes -> header -> unlock) the flusher '
          'holding the lock and the session being inside a bracketed statement exclude each other; C13_no_write_inside_statement; '
          'C13_all_bracketed - a `decide` over facts re-extracted from the source on every run: every Evaluate* opens with '
          'StartTxn/defer EndTxn, the log append is inside the bracket, CREATE TABLE changes the catalog and flushes it as one section under the exclusive lock, flushPages '
          'holds the exclusive lock for its whole body, the data file is written only from flushPages, the flusher goroutine is started in one place only, as the last step of fileStore.open after every read of the header, and only the store OpenRelation returns has a flusher (CreateDB, which changes pages under no lock, has none); '
          'C13_unbracketed_counterexample shows the hypothesis is needed. C13_system_safe - the model of the WHOLE discipline around one open database (Mkdb/Model/LockSys.lean: the goroutine that opens the store - newFileStore, header reads, flusher start, newWal ok or failing - and then runs DML / SELECT / CREATE TABLE; the flusher; Close from the signal handler: stopFlusher, exclusive lock, log close, flush), parameterised by seven facts re-extracted from the source on every run: under EVERY schedule of any length none of six bad events occurs (a page or header write by another goroutine between a statement lock and its release, or between the change of CREATE TABLE and the end of its own flush; a log append on a closed log; a flush before the header was read; a flusher outliving a failed open; a page change while a flush walks the cache) - proved by an invariant whose one-step preservation is a finite table checked by kernel evaluation; C13_source_discipline_good / C13_current_source_safe instantiate it with the facts of the current source; C13_each_fact_is_needed: with any single fact false some schedule reaches a bad event (the defects 62bfa73, 873910e, 34a4346, 1b978f2 and two seeded changes, as schedules). What the model cannot exhibit (Go memory model, RWMutex, '
          'scheduler) is exercised, not proved: the harness is built with -race and run against the real 100 ms timer - statements are '
          'parked inside their log append for more than three ticks while page/header writes are counted (must be 0), and a storm of '
          'CREATE/INSERT/SELECT/UPDATE/DELETE across many ticks must leave the race detector silent; a session that opens the database and stays idle for three ticks (on an empty and on a filled file), a CREATE DATABASE slowed past three ticks and an open stalled for three ticks between creating the store and reading its header cover the start-up paths (they exposed the defects repaired in c8c2929 and 34a4346).',
    note='Trusted: Lean kernel, the hand-written lock model, the extractor\'s call skeletons, sync.RWMutex, time.Ticker, the Go race '
         'detector (happens-before, independent of the timing observed). Labelled partial: thread interleavings of the real runtime are '
         'sampled, not proved.',
    rule='2 (thorough 16) rounds of parked INSERT / UPDATE / DELETE, each held for 350 ms inside its log append; a storm of about '
         ' [round 2] plus 12 (thorough 96) INSERT statements of 900-2600 rows started at every phase of the 100 ms timer, counting page/header writes between the first lock acquisition of the statement and its return (hooks txn.begin / page.write / hdr.write). '
         '1-5 s of CREATE TABLE + DML + SELECT on fresh tables across timer ticks under -race. Non-trivial: parked statements and a '
         'storm of more than 10 tables; distinct by scenario.',
    assumptions=['a data race on shared page/cache state is reported by the race detector when both accesses occur in the run'],
    trusted_base=['models Mkdb/Model/Lock.lean, Mkdb/Model/LockSys.lean (hand-written; tied to the source by the extracted facts only - the schedules of the real runtime are sampled by the race-detector runs); facts Mkdb/Generated/Locks.lean regenerated by tools/extract'],
)
