"""Per-property configuration of ./check: Lean modules holding the property theorems,
source facts the proofs rely on, harness runs (correspondence + judge)."""

PROPS = {}
PENDING = {}

PROPS['C15'] = dict(
    lean=['Mkdb.Props.C15'],
    facts=['lru.capacity', 'skeleton.storage.LRUCache.set', 'skeleton.storage.LRUCache.get',
           'panics.storage.LRUCache.set', 'panics.storage.LRUCache.get'],
    runs=[dict(cmd='lru', proto='lru')],
    claim='Proof: C15_bounded, C15_lookup(_after_set), C15_evicts_lru_clean, C15_dirty_pinned, C15_refuse_iff, '
          'C15_refuse_unchanged are Lean theorems over every capacity and every finite operation sequence of the '
          'model of LRUCache.set/get plus dirty flips. The model is tied to storage/lru.go on every run by exhaustive '
          'small-scope and random step-by-step correspondence (results and full recency list) and by extracted call '
          'skeletons; the judge evaluates the C15 statement itself on the implementation\'s states.',
    note='Trusted: Lean kernel (axioms propext, Classical.choice, Quot.sound only), the hand-written model, the '
         'harness, container/list and map semantics. The proof is about the model; the code is covered through the '
         'correspondence (bounded: depth 4-5 exhaustive, 400-op random).',
    rule='exhaustive: every op sequence of depth 4 (thorough 5) over 3 keys x {set clean, set dirty, get, flip clean, '
         'flip dirty} at capacities 0..3; random: 20-400 ops at capacities 1..64 and 10000. A case is non-trivial if it '
         'contains an eviction, a refusal or a hit; distinct by (capacity, op list).',
    assumptions=['container/list and the Go map behave as a list and a finite map',
                 'dirtiness is a field of the page object the entry points to (modelled per entry)'],
    trusted_base=['model Mkdb/Model/LRU.lean hand-written from storage/lru.go; tied by step-by-step correspondence on '
                  'return values and the full recency list'],
)

STORAGE_CONSTS = ['const.storage.' + n for n in (
    'pageSize', 'internalNodeHeaderSize', 'leafNodeHeaderSize', 'offsetElemSize', 'nodeCellSize', 'maxValueSize',
    'leafNodeCellSize', 'maxInternalNodeCells', 'maxLeafNodeCells', 'InternalNode', 'LeafNode')]

PROPS['C12'] = dict(
    lean=['Mkdb.Props.C12'],
    facts=STORAGE_CONSTS + ['layout.btreeNode.encodeLeaf', 'layout.btreeNode.encodeInternal',
                            'layout.btreeNode.decodeLeaf', 'layout.btreeNode.decodeInternal',
                            'panics.storage.fileStore.fetch', 'panics.storage.btreeNode.encodeLeaf',
                            'panics.storage.btreeNode.decodeLeaf', 'panics.storage.btreeNode.decodeInternal',
                            'skeleton.storage.fileStore.fetch', 'skeleton.storage.fileStore.update'],
    runs=[dict(cmd='page', proto='page')],
    claim='Proof: C12_leaf, C12_internal, C12_roundtrip (every node within capacity - any cell count up to the maximum, '
          'any value bytes up to maxValueSize, any flags, any 64-bit offsets/LSNs - encodes to exactly pageSize bytes and '
          'decodes, through the first-byte dispatch, to the same node), C12_fits (capacity arithmetic over the constants '
          'regenerated from storage/page.go, by decide) and C12_dispatch are Lean theorems about a byte-level model of '
          'encodeLeaf/encodeInternal/decodeLeaf/decodeInternal/fetch. Tie: constants and binary.Write/Read field layouts '
          'are re-extracted from the source every run; the model\'s bytes and decode are compared with '
          'fileStore.update -> cold fileStore.fetch on exhaustive small shapes, random shapes, over-capacity nodes and '
          'damaged page images.',
    note='Trusted: Lean kernel, the hand-written codec model, encoding/binary + bytes.Buffer semantics (modelled), the '
         'harness. Offset arrays are identity in every node the engine builds; heap dumps in C01/C11 runs show the array.',
    rule='exhaustive: leaf cell counts 0..9 x sibling-flag combinations x value sizes {0,1,399,400} x tombstone patterns; '
         'internal nodes at 0,1,2,144,145,289,290 cells; random nodes within capacity; nodes over capacity (panic path); '
         'damaged images (cut short, header bytes overwritten). Non-trivial: a within-capacity node with >= 1 cell; '
         'distinct by node text.',
    assumptions=['encoding/binary little-endian fixed-width semantics', 'bytes.Buffer.Read/Next semantics as modelled in Mkdb/Model/Bin.lean'],
    trusted_base=['model Mkdb/Model/Page.lean + Mkdb/Model/Bin.lean hand-written from storage/page.go'],
)

PROPS['C08'] = dict(
    lean=['Mkdb.Props.C08', 'Mkdb.Props.C12'],
    facts=['layout.Tuple.Encode', 'layout.Tuple.Decode', 'const.storage.maxValueSize',
           'const.storage.TypeInt', 'const.storage.TypeVarchar', 'const.storage.TypeBoolean', 'const.storage.TypeBigInt'],
    runs=[dict(cmd='tuple', proto='tuple'), dict(cmd='sql', proto='sql', args=['literals'], corpus='C08')],
    claim='Proof: C08_tuple_roundtrip (for every schema with distinct column names and every assignment of int64 / byte-string / '
          'boolean / NULL values, what Tuple.Encode accepts Tuple.Decode returns bit-for-bit), C08_accept_iff (a row is accepted '
          'exactly when each column is NULL or of the column type, INT within 32 bits) and C08_refuse_kind (which error) are Lean '
          'theorems over the byte-level row codec model; C12_roundtrip carries the bytes through a page. Tie: Encode/Decode field '
          'layouts re-extracted every run; the encoded bytes, error kinds and decoded maps are compared with the real '
          'Tuple.Encode/Decode on boundary and random rows; the judge evaluates accept/refuse and read-back on the implementation.',
    note='Trusted: Lean kernel, hand-written model of relation.go Tuple/FieldDef, Go map modelled as association list, harness. '
         'Statement-level read-back (flush, eviction, restart) is exercised by the C01/C02/C16 runs, literals by C09/C10.',
    rule='single-column schemas x every boundary value of every kind (exhaustive), then random schemas of 1-8 columns over the four '
         'types with valid rows, rows with one invalid column, type-confused rows, absent / explicit-NULL columns, unknown columns, '
         'duplicate assignments and duplicate column names. Non-trivial: non-empty schema and assignment; distinct by text.',
    assumptions=['reflect.Kind of the supplied Go values is int64/string/bool/nil (what parser and csvimport produce)'],
    trusted_base=['model Mkdb/Model/Tuple.lean hand-written from storage/relation.go'],
)

SQL_PANIC_FACTS = ['panics.sql.*', 'sql.tokens', 'const.sql.*']

PROPS['C09'] = dict(
    lean=['Mkdb.Props.C09'],
    facts=SQL_PANIC_FACTS + ['skeleton.engine.Session.ExecQuery'],
    runs=[dict(cmd='sql', proto='sql', timeout=1200)],
    search_seeds=1,
    claim='Proof: C09_no_panic - for every rune sequence (arbitrary letter/digit/upper-case oracles for non-ASCII runes) the model of '
          'engine.parseSQL (go_scanner.Scan + tokenScanner.Cur + every parser production, with each Go panic site an explicit '
          '.panic outcome) returns a statement or an error value, never a panic; C09_parse_no_panic the same for every token list; '
          'C09_unquote_guard: the quote-stripping slice is only taken on a terminated token of length >= 2. Termination: the model is '
          'total with fuel; that the initial fuel is never exhausted (every loop iteration / recursive production consumes a token) '
          'is proved in Mkdb/Proofs/Fuel.lean when present in the audit list, otherwise observed (no `.fuel` outcome on any run). '
          'Tie: the panic-site inventory of sql/*.go and the token table are re-extracted every run; scanner tokens, parse outcome '
          'class, error kind and AST are compared with the real scanner+parser on all token sequences of length <= 2-3 over the full '
          'vocabulary, every truncation and mutation of generated statements, unterminated quotes, huge numbers, random bytes incl. '
          'invalid UTF-8 and >1024-byte inputs, under a watchdog.',
    note='Trusted: Lean kernel, hand-written scanner/parser model, UTF-8 decoding and Unicode tables (supplied per rune by the '
         'harness), strconv.Atoi (modelled), Go stack depth on pathologically deep OR chains (not modelled).',
    rule='corpus of past failures; all token sequences of length 1-2 over the vocabulary (one token per token type plus literal / '
         'identifier variants) and statement keyword + all length-2 (thorough: 3) sequences; generated statements with two '
         'renderings each, all word-boundary truncations, random cuts, word mutations; unterminated literals; exhaustive boolean '
         'shapes up to 4 predicates; random byte soup; long inputs. Non-trivial: outcome ok or panic (text) / not err (tokens); '
         'distinct by input.',
    assumptions=['strings.ToLower("databases") comparison only involves ASCII case folding'],
    trusted_base=['models Mkdb/Model/Scan.lean, Mkdb/Model/Parse.lean hand-written from sql/go_scanner.go, sql/scanner.go, sql/parser.go'],
)
PROPS['C10'] = dict(
    lean=['Mkdb.Props.C10'],
    facts=['sql.tokens', 'const.sql.*', 'panics.sql.*'],
    runs=[dict(cmd='sql', proto='sql', timeout=1200)],
    search_seeds=1,
    claim='Proof (partial by production): C10_cond_roundtrip / C10_where_roundtrip - for EVERY parenthesis-free combination of '
          'comparison predicates with AND/OR (any number, any operands whose literals Token.Val reads back) the parser model returns '
          'the tree in which AND binds tighter than OR and consumes exactly those tokens; C10_and_tighter; C10_group_by_list - a comma '
          'separated GROUP BY list of n columns yields n columns (no silent cut). The remaining productions (select list, joins, '
          'VALUES rows, SET lists, ORDER BY, LIMIT/OFFSET, DDL) and the text->token layer are covered by correspondence and judge only '
          '(C10_statement_roundtrip_partial): statement trees generated over the whole grammar, rendered with random keyword case, '
          'whitespace, comments, line breaks and optional keywords, two renderings each, exhaustive boolean shapes up to 4 predicates; '
          'the real parser\'s AST must equal the generated tree and equal the model\'s AST.',
    note='Trusted: Lean kernel, hand-written scanner/parser model, generator of expected trees in the harness (the tree side of the '
         'round trip), Unicode tables. Adjacent tokens without whitespace are exercised only by the tight renderings.',
    rule='as C09 (same run); a generated statement is one case per rendering; non-trivial: parses ok; distinct by input text.',
    assumptions=['identifiers that collide with keywords are rendered delimited'],
    trusted_base=['models Mkdb/Model/Scan.lean, Mkdb/Model/Parse.lean; expected-tree generator harness/cmd/h/sql.go'],
)

PROPS['C20'] = dict(
    lean=['Mkdb.Props.C20'],
    facts=['panics.cmd/console.*', 'skeleton.cmd/console.runTerminal'],
    runs=[dict(cmd='console', proto='console')],
    claim='Proof: theorems about the model of Terminal.handleKey (printable keys, Enter) and splitStatements (a left fold of a '
          'quote-tracking automaton): C20_enter_complete / C20_enter_incomplete / C20_semicolon_in_quote, and - when '
          'Mkdb/Proofs/Console.lean is in the audit list - split_wf (a buffer of well-formed statements separated by blanks splits into '
          'exactly those statements, a semicolon inside quotes does not split), run_eq_split (for every key sequence of printable keys '
          'and Enters the concatenation of all submissions equals the quote-aware split of everything typed with each Enter read as '
          'one space) and C20_submit (the console hands over exactly the typed statements, once each, in order). Tie: the model is '
          'compared with the real Terminal.ReadLine (in-package driver) on statement lists with semicolons / other quotes / spaces in '
          'literals under every-space and random line breakings, several statements per line, unfinished input, blank lines, ignored '
          'control keys and a line at the 4096-rune limit; the judge compares the submissions with the typed statement list.',
    note='Trusted: Lean kernel, hand-written console model, UTF-8 decoding of the byte stream, strings.TrimSpace (modelled as trimming '
         'Unicode White_Space). Domain: printable keys and Enter; editing keys, history and bracketed paste are outside the model; '
         'keys beyond the terminal\'s 4096-rune line limit are dropped by the terminal (stated bound).',
    rule='pairs of statements from a 19-statement pool (literals with ; " \' ` \\ and unicode) x {no breaks, break at every space}; '
         'random lists of 1-5 statements with random breakings; junk key streams. Non-trivial: a statement with a semicolon inside a '
         'literal; distinct by key stream.',
    assumptions=['keys are delivered as UTF-8; tab/LF are not printable keys and are ignored by the terminal'],
    trusted_base=['model Mkdb/Model/Console.lean hand-written from cmd/console/go_terminal.go'],
)

PROPS['C19'] = dict(
    lean=['Mkdb.Props.C19'],
    facts=['panics.cmd/csvimport.*', 'skeleton.cmd/csvimport.doBatchInsert', 'const.storage.maxValueSize'],
    runs=[dict(cmd='csv', proto='csv')],
    claim='Proof: C19_import (for every schema, mapping and record stream the table after the import is the table before it '
          'followed by the converted accepted records in input order), C19_bad_record_harmless (a rejected record neither '
          'prevents, alters nor duplicates the others), C19_one_row_each, C19_conv_field (the \\N marker is NULL; per-type '
          'conversion incl. BIGINT) and - when present in the audit list - C19_convert (every mapped column of an accepted row holds '
          'the converted field, every unmapped column is NULL) are Lean theorems about the model of colDataTypes / csvToSql / the '
          'doBatchInsert loop on top of the C08 row codec. Tie: an in-package driver runs the real colDataTypes and doBatchInsert on a '
          'real database; the record stream encoding/csv yields is passed to the model; per-record ok/err events and the final '
          'SELECT * are compared; the judge checks one row per accepted record, order, and independence of bad records.',
    note='Trusted: Lean kernel, hand-written model, encoding/csv (the model starts from its record stream), strconv.Atoi/ParseInt '
         '(modelled), strings.ToLower restricted to ASCII for the boolean words, the storage layer below Insert (C01/C08/C12).',
    rule='120 (thorough 960) imports: schemas of 1-6 columns over the four types (the first eight fix one column of each type), '
         'random mappings (subset, order, source indexes, occasionally an unknown column), separators , ; tab |, 0-12 records each: '
         'valid fields per type incl. boundary integers, \\N, unparsable numbers, wrong words, quoted fields with separators / '
         'quotes / newlines, rows over the 400-byte limit, short records, malformed quoting, empty lines. Non-trivial: at least one '
         'row stored; distinct by (schema, mapping, data).',
    assumptions=['source column indexes are non-negative (a negative -src-cols entry is a configuration error that crashes csvimport)'],
    trusted_base=['model Mkdb/Model/Csv.lean hand-written from cmd/csvimport/main.go'],
)

EXEC_FACTS = ['panics.engine.*', 'skeleton.engine.EvaluateSelect']
EXEC_NOTE = ('Trusted: Lean kernel, hand-written executor model (Mkdb/Model/Exec.lean), the scanner/parser model the SQL text goes '
             'through, sort.Slice (modelled as a stable insertion sort; comparisons with the implementation are insensitive to the '
             'order of ties, and the comparator is proved a strict weak order on typed columns), Go map iteration inside aggregation '
             '(not order relevant), storage below Fetch (C01).')
EXEC_ASSUME = ['float division in math.Round is exact for |sum| < 2^53', 'tables are typed: a column holds values of one type or NULL (C08)']
PROPS['C05'] = dict(
    lean=['Mkdb.Props.C05'], facts=EXEC_FACTS, sig_filter=r'exec:(select:.*|header|panic|hang|no-output)',
    runs=[dict(cmd='exec', proto='exec', args=['select'])],
    claim='Proof: C05_select_correct (for every table and every single-table SELECT without aggregates the model of EvaluateSelect '
          'returns exactly filter(WHERE) -> project(select list) -> sort(ORDER BY keys resolved against the output header) -> '
          'drop OFFSET -> take LIMIT), C05_sort (sorted permutation), C05_no_order_by (insertion order), C05_cmp_strict_weak (the '
          'multi-key ASC/DESC comparator is a strict weak order on typed columns incl. NULL and strings), C05_limit_offset, '
          'C05_where, C05_or_of_and together with C10_cond_roundtrip (AND binds tighter than OR for every parenthesis-free '
          'condition). Tie: SQL text goes through the real scanner, parser, storage and executor on random tables (0-40 rows, small '
          'value domains for ties); rows and headers are compared with the model (tie-insensitively under ORDER BY) and the judge '
          'evaluates the reference meaning (Mkdb/Spec/Query.lean) on the implementation\'s rows; exhaustive boolean shapes up to 4 '
          'predicates.',
    note=EXEC_NOTE, assumptions=EXEC_ASSUME,
    rule='per database: SELECT *; all 15 AND/OR shapes of 1-4 well-typed predicates; 25 random queries (projection with repeats, '
         'qualifiers, aliases, expressions; WHERE; multi-key ORDER BY ASC/DESC; LIMIT/OFFSET in both orders). Non-trivial: ok with '
         '>= 1 row; distinct by SQL text.',
    trusted_base=['models Mkdb/Model/Exec.lean, Mkdb/Spec/Query.lean'],
)
PROPS['C06'] = dict(
    lean=['Mkdb.Props.C06'], facts=EXEC_FACTS, sig_filter=r'exec:(join:.*|panic|hang|no-output)',
    runs=[dict(cmd='exec', proto='exec', args=['join'])],
    claim='Proof: C06_join - for every left-deep chain of INNER/LEFT/RIGHT joins over any table contents, whenever the relational '
          'definition (pairs satisfying ON, plus each unmatched left/right row once padded with NULLs) is defined, the nested-loop '
          'join of the model returns the same header and a permutation of exactly those rows; C06_inner/left/right give the exact '
          'equations in loop order; C06_ambiguous, C06_qualified, C06_alias cover column resolution (ambiguous unqualified names are '
          'rejected; alias replaces the table name; self-join under two aliases). Tie: join queries as SQL text on real storage over '
          'three tables with duplicate and missing keys, empty sides, self-joins, chains of two joins, AND/OR ON-conditions; exact row '
          'order compared with the model, multiset compared with the relational definition by the judge.',
    note=EXEC_NOTE, assumptions=EXEC_ASSUME,
    rule='per database 14 random two-table joins (4 join spellings x 4 ON shapes), 5 fixed alias / ambiguity cases, 6 chains of two '
         'joins. Non-trivial: ok with >= 1 row; distinct by SQL text.',
    trusted_base=['models Mkdb/Model/Exec.lean, Mkdb/Spec/Query.lean'],
)
PROPS['C07'] = dict(
    lean=['Mkdb.Props.C07'], facts=EXEC_FACTS, sig_filter=r'exec:(aggregate:.*|panic|hang|no-output)',
    runs=[dict(cmd='exec', proto='exec', args=['agg'])],
    claim='Proof: C07_one_group_per_key, C07_group_membership, C07_partition (exactly one group per distinct tuple of grouping values; '
          'a group is exactly the rows with its key), C07_count_star, C07_count_col, C07_order_independent (groups and counts do not '
          'depend on row order), C07_one_row_per_key (one result row per distinct tuple). AVG is a KNOWN FINDING: the code keeps a '
          'cumulative average rounded after every row; the full statement "AVG = round(sum/count), order independent" is false of '
          'code and model (C07_avg_counterexample, replayed on the implementation by corpus/C07/P9), C07_avg_partial is what holds; '
          'the repair cannot pass the unedited test suite (see KNOWN_FINDINGS.txt). Tie: aggregate queries as SQL text on real '
          'storage with colliding printed forms ((1,11)/(11,1)), GROUP BY by name / qualifier / alias with comma lists, COUNT over '
          'NULL-bearing columns, on top of WHERE and JOIN; the judge recomputes groups, counts and exact averages from the source rows.',
    note=EXEC_NOTE, assumptions=EXEC_ASSUME,
    rule='per database 5 ungrouped aggregate queries, 27 GROUP BY queries (9 grouping column sets x 3 spellings), 2 grouped joins. '
         'Non-trivial: ok with >= 1 row; distinct by SQL text.',
    trusted_base=['models Mkdb/Model/Exec.lean, Mkdb/Spec/Query.lean'],
)
PROPS['C18'] = dict(
    lean=['Mkdb.Props.C18', 'Mkdb.Props.C09'], facts=EXEC_FACTS + ['skeleton.engine.Session.ExecQuery'], sig_filter=r'exec:(panic|hang|no-output)',
    runs=[dict(cmd='exec', proto='exec', args=['confused'])],
    claim='Proof (partial): C18_no_panic_partial - for every database whose rows have one value per column (NULLs, any types) and '
          'every SELECT of a shape the parser produces, the model of EvaluateSelect returns rows or an error value; the only panic '
          'left is the ORDER BY comparator meeting two non-NULL values of different types in one column, excluded on typed columns by '
          'C18_sort_safe; C09_total covers the front end. Not yet covered by a theorem: INSERT/UPDATE/DELETE/CREATE statements and the '
          'session states (no USE / failed USE), which are correspondence-only (C01/C14/C17 runs). Tie: panic-site inventory of '
          'engine/*.go re-extracted every run; type-confused, NULL-bearing and ill-formed queries run under recover() and a watchdog.',
    note=EXEC_NOTE, assumptions=EXEC_ASSUME,
    rule='per database 46 fixed ill-typed / ill-formed queries (AVG over varchar/bool/NULL, ORDER BY over NULLs, unknown / ambiguous / '
         'duplicated columns, bare operands, non-boolean ON) and 30 random type-confused predicates / sorts, on tables with and '
         'without NULLs and empty tables. Non-trivial: ok with >= 1 row; distinct by SQL text.',
    trusted_base=['models Mkdb/Model/Exec.lean'],
)

STORE_FACTS = ['skeleton.storage.*', 'panics.storage.*', 'skeleton.engine.Evaluate*', 'storage.callers.*', 'storage.file_writers',
               'layout.WALEntry.*', 'layout.fileStore.*'] + STORAGE_CONSTS
PROPS['C01'] = dict(lean=['Mkdb.Props.C01'], facts=STORE_FACTS, runs=[dict(cmd='db', proto='db', args=['c01'])],
    sig_filter=r'db:(contents-differ:live|schema-differs:live|row-ids-not-increasing:live|row-id:live|panic:live|hang:live|select-failed:live|valid-statement-refused:live)',
    claim='pending', note='pending', rule='')
PROPS['C02'] = dict(lean=['Mkdb.Props.C02'], facts=STORE_FACTS, runs=[dict(cmd='db', proto='db', args=['c02']), dict(cmd='wal', proto='wal')],
    sig_filter=r'wal:.*|db:(contents-differ:after-recovery|recovery-failed:.*|valid-statement-refused:after-recovery|row-id:after-recovery|row-ids-not-increasing:after-recovery|schema-differs:after-recovery|panic:after-recovery|hang:after-recovery|select-failed:after-recovery)',
    claim='pending', note='pending', rule='')
PROPS['C11'] = dict(lean=['Mkdb.Props.C11'], facts=STORE_FACTS, runs=[dict(cmd='db', proto='db', args=['c01'], corpus='C11')],
    sig_filter=r'db:shape:.*', claim='pending', note='pending', rule='')
PROPS['C14'] = dict(lean=['Mkdb.Props.C14'], facts=STORE_FACTS, runs=[dict(cmd='db', proto='db', args=['c14'])],
    sig_filter=r'db:(failed-statement-changed-table|failed-statement-applied-row-prefix|failed-create-left-table|invalid-statement-accepted)', claim='pending', note='pending', rule='')

PROPS['C03'] = dict(lean=['Mkdb.Props.C02'], facts=STORE_FACTS, runs=[dict(cmd='db', proto='db', args=['c03']), dict(cmd='wal', proto='wal')],
    sig_filter=r'(db:(image-.*|panic:.*|hang:.*)|wal:.*)', claim='pending', note='pending', rule='')
PROPS['C04'] = dict(lean=['Mkdb.Props.C02'], facts=STORE_FACTS, runs=[dict(cmd='db', proto='db', args=['c04'], timeout=3000)],
    sig_filter=r'db:(fimage-.*)', claim='pending', note='pending', rule='')

PROPS['C16'] = dict(lean=['Mkdb.Props.C02'], facts=STORE_FACTS + ['lru.capacity', 'skeleton.storage.LRUCache.*'], runs=[dict(cmd='db', proto='db', args=['c16'])],
    sig_filter=r'db:(cache-size-dependent|contents-differ:live|panic:live|hang:live|select-failed:live)', claim='pending', note='pending', rule='', shrink=False)
PROPS['C17'] = dict(lean=['Mkdb.Props.C17'], facts=['skeleton.engine.Session.*', 'panics.engine.Session.*', 'skeleton.storage.OpenRelation', 'skeleton.storage.CreateDB', 'skeleton.storage.newFileStore', 'skeleton.storage.fileStore.close'],
    runs=[dict(cmd='sess', proto='sess')], sig_filter=r'sess:.*', claim='pending', note='pending', rule='')
LOCK_FACTS = ['skeleton.engine.Evaluate*', 'skeleton.storage.fileStore.flushPages', 'skeleton.storage.newFileStore', 'skeleton.storage.RelationService.CreateTable',
              'skeleton.storage.RelationService.StartTxn', 'skeleton.storage.RelationService.EndTxn', 'storage.file_writers', 'storage.callers.*', 'skeleton.storage.wal.flush',
              'const.storage.pageFlushInterval']
PROPS['C13'] = dict(
    lean=['Mkdb.Props.C13'], facts=LOCK_FACTS + ['lock.*'], runs=[dict(cmd='lock', proto='lock', race=True)], sig_filter=r'lock:.*', shrink=False,
    claim='Proof (partial by nature): C13_exclusion - in every reachable state of every schedule of the lock model (reader/writer lock, '
          'session goroutine: begin -> change* -> log -> end, flusher goroutine: lock -> page writes -> header -> unlock) the flusher '
          'holding the lock and the session being inside a bracketed statement exclude each other; C13_no_write_inside_statement; '
          'C13_all_bracketed - a `decide` over facts re-extracted from the source on every run: every Evaluate* opens with '
          'StartTxn/defer EndTxn, the log append is inside the bracket, CREATE TABLE changes pages under the shared lock, flushPages '
          'holds the exclusive lock for its whole body, the data file is written only from flushPages; '
          'C13_unbracketed_counterexample shows the hypothesis is needed. What the model cannot exhibit (Go memory model, RWMutex, '
          'scheduler) is exercised, not proved: the harness is built with -race and run against the real 100 ms timer - statements are '
          'parked inside their log append for more than three ticks while page/header writes are counted (must be 0), and a storm of '
          'CREATE/INSERT/SELECT/UPDATE/DELETE across many ticks must leave the race detector silent.',
    note='Trusted: Lean kernel, the hand-written lock model, the extractor\'s call skeletons, sync.RWMutex, time.Ticker, the Go race '
         'detector (happens-before, independent of the timing observed). Labelled partial: thread interleavings of the real runtime are '
         'sampled, not proved.',
    rule='2 (thorough 16) rounds of parked INSERT / UPDATE / DELETE, each held for 350 ms inside its log append; a storm of about '
         '1-5 s of CREATE TABLE + DML + SELECT on fresh tables across timer ticks under -race. Non-trivial: parked statements and a '
         'storm of more than 10 tables; distinct by scenario.',
    assumptions=['a data race on shared page/cache state is reported by the race detector when both accesses occur in the run'],
    trusted_base=['model Mkdb/Model/Lock.lean; facts Mkdb/Generated/Locks.lean regenerated by tools/extract'],
)
