"""Per-property configuration of ./check: Lean modules holding the property theorems,
source facts the proofs rely on, harness runs (correspondence + judge)."""

PROPS = {}
PENDING = {}

PROPS['C15'] = dict(
    lean=['Mkdb.Props.C15'],
    facts=['lru.capacity', 'skeleton.storage.LRUCache.set', 'skeleton.storage.LRUCache.get',
           'panics.storage.LRUCache.set', 'panics.storage.LRUCache.get'],
    runs=[dict(cmd='lru', proto='lru')],
    claim='Proof: C15_bounded, C15_lookup(_after_set), C15_evicts_lru_clean, C15_dirty_pinned, C15_refuse_iff, '
          'C15_refuse_unchanged are Lean theorems over every capacity and every finite operation sequence of the '
          'model of LRUCache.set/get plus dirty flips. The model is tied to storage/lru.go on every run by exhaustive '
          'small-scope and random step-by-step correspondence (results and full recency list) and by extracted call '
          'skeletons; the judge evaluates the C15 statement itself on the implementation\'s states.',
    note='Trusted: Lean kernel (axioms propext, Classical.choice, Quot.sound only), the hand-written model, the '
         'harness, container/list and map semantics. The proof is about the model; the code is covered through the '
         'correspondence (bounded: depth 4-5 exhaustive, 400-op random).',
    rule='exhaustive: every op sequence of depth 4 (thorough 5) over 3 keys x {set clean, set dirty, get, flip clean, '
         'flip dirty} at capacities 0..3; random: 20-400 ops at capacities 1..64 and 10000. A case is non-trivial if it '
         'contains an eviction, a refusal or a hit; distinct by (capacity, op list).',
    assumptions=['container/list and the Go map behave as a list and a finite map',
                 'dirtiness is a field of the page object the entry points to (modelled per entry)'],
    trusted_base=['model Mkdb/Model/LRU.lean hand-written from storage/lru.go; tied by step-by-step correspondence on '
                  'return values and the full recency list'],
)
