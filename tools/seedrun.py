#!/usr/bin/env python3
"""Apply a seeded change to /repo, run checks, undo.  Never commits.

  tools/seedrun.py <patch.diff> <Cnn> [<Cnn> ...] [--tier quick|thorough]

Prints, per property, the exit code and the VIOLATION / KNOWN-FINDING lines; the evidence
directory is saved and restored, so a run on a changed tree never replaces real evidence."""
import sys, os, subprocess, shutil, tempfile, time, json

ROOT = os.path.dirname(os.path.dirname(os.path.abspath(__file__)))

def main():
    args = sys.argv[1:]
    tier = 'quick'
    if '--tier' in args:
        i = args.index('--tier'); tier = args[i + 1]; del args[i:i + 2]
    patch, props = os.path.abspath(args[0]), args[1:]
    st = subprocess.run(['git', '-C', '/repo', 'status', '--porcelain'], capture_output=True, text=True).stdout.strip()
    if st:
        print('refusing: /repo working tree is not clean:\n' + st); return 2
    keep = tempfile.mkdtemp(prefix='evkeep', dir='/root/scratch')
    shutil.copytree(os.path.join(ROOT, 'evidence'), os.path.join(keep, 'evidence'))
    rc = subprocess.run(['git', '-C', '/repo', 'apply', patch]).returncode
    if rc != 0:
        print('patch does not apply'); shutil.rmtree(keep); return 2
    results = []
    try:
        for p in props:
            t0 = time.time()
            r = subprocess.run([os.path.join(ROOT, 'check'), p, '--tier', tier], capture_output=True, text=True)
            lines = [l for l in r.stdout.split('\n') if l.startswith(('VIOLATION', 'KNOWN-FINDING', '==', 'property fails', 'BROKEN', '  model', '  impl')) or 'broken' in l.lower()]
            results.append(dict(property=p, tier=tier, exit=r.returncode, seconds=round(time.time() - t0, 1), lines=lines[:25]))
            print('%s tier=%s exit=%d %.0fs' % (p, tier, r.returncode, time.time() - t0))
            for l in lines[:25]:
                print('   ' + l[:300])
    finally:
        subprocess.run(['git', '-C', '/repo', 'checkout', '--', '.'])
        subprocess.run(['git', '-C', '/repo', 'clean', '-fdq'])
        # the generated Lean facts were regenerated from the changed tree: bring them back to the clean tree
        env = dict(os.environ, GOFLAGS='-mod=mod', GOPROXY='off', GOSUMDB='off', GOTOOLCHAIN='local')
        tmpf = tempfile.mkdtemp(prefix='facts', dir='/root/scratch')
        subprocess.run(['go', 'run', '.', '-repo', '/repo', '-facts', os.path.join(tmpf, 'facts.json'), '-lean',
                        os.path.join(ROOT, 'lean', 'Mkdb', 'Generated')], cwd=os.path.join(ROOT, 'tools', 'extract'), env=env,
                       stdout=subprocess.DEVNULL, stderr=subprocess.DEVNULL)
        shutil.rmtree(tmpf, ignore_errors=True)
        shutil.rmtree(os.path.join(ROOT, 'evidence'))
        shutil.copytree(os.path.join(keep, 'evidence'), os.path.join(ROOT, 'evidence'))
        shutil.rmtree(keep)
    out = os.path.join(os.path.dirname(patch), 'result-%s-%s.json' % (os.path.basename(patch).replace('.diff', ''), tier))
    json.dump(results, open(out, 'w'), indent=1)
    return 0

if __name__ == '__main__':
    sys.exit(main())
