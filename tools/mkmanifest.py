#!/usr/bin/env python3
"""Regenerate MANIFEST.json from tools/props.py (run by hand after editing props.py)."""
import json, os, sys
ROOT = os.path.dirname(os.path.dirname(os.path.abspath(__file__)))
sys.path.insert(0, os.path.join(ROOT, 'tools'))
import props

ALL = ['C%02d' % i for i in range(1, 21)]
HOOK_COMMITS = [l.strip() for l in open(os.path.join(ROOT, 'tools', 'hook_commits.txt')) if l.strip()]

m = {
    "version": 1,
    "setup_cmd": "cd /verif && ./tools/setup.sh",
    "hooks": {
        "guard": "verif",
        "enable": "go build -tags verif (the harness module replaces github.com/mk6i/mkdb with /repo; in-package drivers run as go test -tags verif)",
        "baseline_off_cmd": "cd /repo && GOFLAGS=-mod=mod go test -vet=off -count=1 ./...",
        "source_commits": HOOK_COMMITS,
        "add_only": True,
    },
    "engines": [
        {"name": "lean", "path": "lean/", "serves_properties": sorted(props.PROPS),
         "kind_free_text": "Lean 4 model (Mkdb/Model), specs (Mkdb/Spec), proofs (Mkdb/Proofs), property theorems (Mkdb/Props), line-protocol driver mkdbdrv (model and judge modes)"},
        {"name": "extract", "path": "tools/extract/", "serves_properties": sorted(props.PROPS),
         "kind_free_text": "Go (go/ast, go/types) fact extractor: constants, codec layouts, call skeletons, panic-site inventories; regenerates lean/Mkdb/Generated"},
        {"name": "harness", "path": "harness/", "serves_properties": sorted(props.PROPS),
         "kind_free_text": "Go correspondence harness running the real code in-process (-tags verif) and writing the trace the Lean driver replays"},
    ],
    "checks": [],
    "not_applicable": [],
    "notes": "Every check: ./check <id> [--tier quick|thorough] [--replay file]. See DESIGN.md.",
}
for pid in ALL:
    if pid in props.PROPS:
        s = props.PROPS[pid]
        m["checks"].append({
            "property_id": pid,
            "quick_cmd": "./check %s --tier quick" % pid,
            "thorough_cmd": "./check %s --tier thorough" % pid,
            "evidence_file": "/verif/evidence/%s.json" % pid,
            "replay_cmd_template": "./check %s --replay {path}" % pid,
            "engine": "lean",
            "level_claimed": {"category": s.get('level', 'proof'), "text": s['claim'], "design_ref": "DESIGN.md section 5, " + pid},
            "level_note": s['note'],
            "technique": s.get('technique', 'Lean 4 theorems about a hand-written model + regenerated source facts + differential correspondence check'),
        })
    else:
        m["not_applicable"].append({"property_id": pid, "reason": props.PENDING.get(pid, "machinery for this property is not built yet; nothing is claimed")})
json.dump(m, open(os.path.join(ROOT, 'MANIFEST.json'), 'w'), indent=1)
print('wrote MANIFEST.json: %d checks, %d not claimed' % (len(m['checks']), len(m['not_applicable'])))
