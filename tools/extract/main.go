// Command extract regenerates, from /repo's current source, the facts the Lean
// model is parameterised by and the proofs rely on: evaluated constants, codec
// layouts (ordered binary.Write/Read sequences), enum/keyword tables, call
// skeletons of the functions whose ordering matters, and panic-site inventories.
// Standard library only (go/parser, go/types with the source importer).
package main

import (
	"bytes"
	"encoding/json"
	"flag"
	"fmt"
	"go/ast"
	"go/constant"
	"go/importer"
	"go/parser"
	"go/printer"
	"go/token"
	"go/types"
	"os"
	"path/filepath"
	"sort"
	"strings"
	"unicode"
)

type pkgInfo struct {
	fset  *token.FileSet
	files map[string]*ast.File
	info  *types.Info
	pkg   *types.Package
}

func load(repo, dir string) (*pkgInfo, error) {
	fset := token.NewFileSet()
	pkgs, err := parser.ParseDir(fset, filepath.Join(repo, dir), func(fi os.FileInfo) bool {
		n := fi.Name()
		return !strings.HasSuffix(n, "_test.go") && !strings.HasPrefix(n, "verif_")
	}, parser.ParseComments)
	if err != nil {
		return nil, err
	}
	p := &pkgInfo{fset: fset, files: map[string]*ast.File{}}
	var files []*ast.File
	var names []string
	for _, pk := range pkgs {
		for name := range pk.Files {
			names = append(names, name)
		}
		sort.Strings(names)
		for _, name := range names {
			p.files[filepath.Base(name)] = pk.Files[name]
			files = append(files, pk.Files[name])
		}
	}
	p.info = &types.Info{Types: map[ast.Expr]types.TypeAndValue{}, Defs: map[*ast.Ident]types.Object{}, Uses: map[*ast.Ident]types.Object{}}
	conf := types.Config{Importer: importer.ForCompiler(fset, "source", nil), Error: func(error) {}}
	os.Chdir(repo)
	p.pkg, _ = conf.Check(dir, fset, files, p.info)
	return p, nil
}

func (p *pkgInfo) src(n ast.Node) string {
	var b bytes.Buffer
	printer.Fprint(&b, p.fset, n)
	return strings.Join(strings.Fields(b.String()), " ")
}

func (p *pkgInfo) funcs() map[string]*ast.FuncDecl {
	m := map[string]*ast.FuncDecl{}
	for _, f := range p.files {
		for _, d := range f.Decls {
			if fd, ok := d.(*ast.FuncDecl); ok && fd.Body != nil {
				name := fd.Name.Name
				if fd.Recv != nil && len(fd.Recv.List) > 0 {
					t := fd.Recv.List[0].Type
					if s, ok := t.(*ast.StarExpr); ok {
						t = s.X
					}
					name = p.src(t) + "." + name
				}
				m[name] = fd
			}
		}
	}
	return m
}

// constants: every package-level constant with an integer value.
func (p *pkgInfo) constants(facts map[string]interface{}, prefix string) {
	if p.pkg == nil {
		return
	}
	sc := p.pkg.Scope()
	for _, name := range sc.Names() {
		if c, ok := sc.Lookup(name).(*types.Const); ok {
			if c.Val().Kind() == constant.Int {
				if v, ok := constant.Int64Val(c.Val()); ok {
					facts[prefix+name] = v
				}
			}
		}
	}
}

func callName(p *pkgInfo, c *ast.CallExpr) string { return p.src(c.Fun) }

// layout: ordered binary.Write / binary.Read calls (plus raw Write/Read/Next on
// buffers) of a function, with loop depth, target buffer, operand and its type.
func (p *pkgInfo) layout(fd *ast.FuncDecl) []string {
	var out []string
	depth := 0
	var walk func(n ast.Node)
	walk = func(n ast.Node) {
		switch x := n.(type) {
		case nil:
			return
		case *ast.ForStmt:
			depth++
			walk(x.Body)
			depth--
			return
		case *ast.RangeStmt:
			depth++
			walk(x.Body)
			depth--
			return
		case *ast.CallExpr:
			name := callName(p, x)
			switch {
			case name == "binary.Write" || name == "binary.Read":
				arg := x.Args[2]
				ty := "?"
				if tv, ok := p.info.Types[arg]; ok && tv.Type != nil {
					ty = types.TypeString(tv.Type, func(*types.Package) string { return "" })
				}
				out = append(out, fmt.Sprintf("d%d %s %s %s : %s", depth, name, p.src(x.Args[0]), p.src(arg), ty))
			case strings.HasSuffix(name, ".Next") || strings.HasSuffix(name, "buf.Read") || strings.HasSuffix(name, "buf.Write"):
				out = append(out, fmt.Sprintf("d%d %s(%s)", depth, name, p.src(x.Args[0])))
			case name == "panic":
				out = append(out, fmt.Sprintf("d%d panic", depth))
			}
		}
		ast.Inspect(n, func(c ast.Node) bool {
			if c == n || c == nil {
				return true
			}
			walk(c)
			return false
		})
	}
	walk(fd.Body)
	return out
}

// skeleton: calls in source order with control-structure markers.
func (p *pkgInfo) skeleton(fd *ast.FuncDecl, keep func(string) bool) []string {
	var out []string
	var walk func(n ast.Node)
	children := func(n ast.Node) {
		ast.Inspect(n, func(c ast.Node) bool {
			if c == n || c == nil {
				return true
			}
			walk(c)
			return false
		})
	}
	walk = func(n ast.Node) {
		switch x := n.(type) {
		case nil:
			return
		case *ast.ForStmt, *ast.RangeStmt:
			out = append(out, "for{")
			children(n)
			out = append(out, "}")
		case *ast.IfStmt:
			if x.Init != nil {
				walk(x.Init)
			}
			walk(x.Cond)
			out = append(out, "if{")
			walk(x.Body)
			out = append(out, "}")
			if x.Else != nil {
				out = append(out, "else{")
				walk(x.Else)
				out = append(out, "}")
			}
		case *ast.ReturnStmt:
			children(n)
			out = append(out, "return")
		case *ast.DeferStmt:
			out = append(out, "defer:"+callName(p, x.Call))
		case *ast.GoStmt:
			out = append(out, "go{")
			children(x.Call)
			out = append(out, "}")
		case *ast.FuncLit:
			out = append(out, "func{")
			children(x.Body)
			out = append(out, "}")
		case *ast.CallExpr:
			for _, a := range x.Args {
				walk(a)
			}
			if s, ok := x.Fun.(*ast.SelectorExpr); ok {
				walk(s.X)
			}
			name := callName(p, x)
			if keep == nil || keep(name) {
				out = append(out, "call:"+name)
			}
		default:
			children(n)
		}
	}
	walk(fd.Body)
	// drop empty control blocks
	for changed := true; changed; {
		changed = false
		for i := 0; i+1 < len(out); i++ {
			if strings.HasSuffix(out[i], "{") && out[i+1] == "}" {
				out = append(out[:i], out[i+2:]...)
				changed = true
				break
			}
		}
	}
	return out
}

// panicSites: unchecked type assertions, index/slice expressions, explicit panics.
func (p *pkgInfo) panicSites(fd *ast.FuncDecl) []string {
	var out []string
	checked := map[*ast.TypeAssertExpr]bool{}
	ast.Inspect(fd.Body, func(n ast.Node) bool {
		switch x := n.(type) {
		case *ast.AssignStmt:
			if len(x.Lhs) == 2 && len(x.Rhs) == 1 {
				if ta, ok := x.Rhs[0].(*ast.TypeAssertExpr); ok {
					checked[ta] = true
				}
			}
		case *ast.ValueSpec:
			if len(x.Names) == 2 && len(x.Values) == 1 {
				if ta, ok := x.Values[0].(*ast.TypeAssertExpr); ok {
					checked[ta] = true
				}
			}
		case *ast.TypeSwitchStmt:
			ast.Inspect(x.Assign, func(m ast.Node) bool {
				if ta, ok := m.(*ast.TypeAssertExpr); ok {
					checked[ta] = true
				}
				return true
			})
		}
		return true
	})
	ast.Inspect(fd.Body, func(n ast.Node) bool {
		switch x := n.(type) {
		case *ast.TypeAssertExpr:
			if !checked[x] && x.Type != nil {
				out = append(out, "assert "+p.src(x))
			}
		case *ast.IndexExpr:
			if tv, ok := p.info.Types[x.X]; ok && tv.Type != nil {
				if _, isMap := tv.Type.Underlying().(*types.Map); isMap {
					return true
				}
			}
			out = append(out, "index "+p.src(x))
		case *ast.SliceExpr:
			out = append(out, "slice "+p.src(x))
		case *ast.CallExpr:
			if callName(p, x) == "panic" {
				out = append(out, "panic "+p.src(x))
			}
		}
		return true
	})
	return out
}

func main() {
	repo := flag.String("repo", "/repo", "repository root")
	factsPath := flag.String("facts", "facts.json", "output facts file")
	leanDir := flag.String("lean", "", "directory for generated Lean files")
	flag.Parse()
	facts := map[string]interface{}{}

	st, err := load(*repo, "storage")
	if err != nil {
		fmt.Fprintln(os.Stderr, err)
		os.Exit(1)
	}
	st.constants(facts, "const.storage.")
	sf := st.funcs()
	for _, fn := range []string{"btreeNode.encodeLeaf", "btreeNode.encodeInternal", "btreeNode.decodeLeaf", "btreeNode.decodeInternal",
		"WALEntry.encode", "WALEntry.decode", "fileStore.save", "fileStore.open", "Tuple.Encode", "Tuple.Decode"} {
		if fd, ok := sf[fn]; ok {
			facts["layout."+fn] = st.layout(fd)
		}
	}
	for _, fn := range []string{"fileStore.flushPages", "fileStore.update", "fileStore.save", "fileStore.fetch", "fileStore.append", "fileStore.close", "fileStore.closeLocked", "fileStore.flushPagesLocked", "fileStore.stopFlusher", "RelationService.Close", "fileStore.open", "fileStore.startFlusher",
		"newFileStore", "wal.flush", "wal.read", "WALBatch.replay", "InitStorage", "LRUCache.set", "LRUCache.get",
		"RelationService.CreateTable", "RelationService.createTable", "RelationService.Insert", "RelationService.Update", "RelationService.MarkDeleted",
		"RelationService.updatePageTable", "RelationService.StartTxn", "RelationService.EndTxn", "OpenRelation", "CreateDB",
		"BTree.insert", "BTree.insertLeaf", "BTree.insertInternal", "btreeNode.split", "btreeNode.markDirty"} {
		if fd, ok := sf[fn]; ok {
			facts["skeleton.storage."+fn] = st.skeleton(fd, func(n string) bool {
				return !strings.HasPrefix(n, "fmt.") && !strings.HasPrefix(n, "errors.") && n != "len" && n != "append" && n != "make" &&
					n != "uint64" && n != "uint32" && n != "int64" && n != "uint16" && n != "int" && n != "verifPoint"
			})
		}
	}
	// the whole body of small pure functions whose Lean model is a transcription of the loop (Model/BSearch.lean):
	// any edit of the body is a broken obligation and sends the check to the search for a failing input
	for _, fn := range []string{"btreeNode.findCellOffsetByKey", "btreeNode.cellKey", "btreeNode.isFull"} {
		if fd, ok := sf[fn]; ok {
			facts["body.storage."+fn] = st.src(fd.Body)
		}
	}
	// who writes to the data file
	var writers []string
	for name, fd := range sf {
		ast.Inspect(fd.Body, func(n ast.Node) bool {
			if c, ok := n.(*ast.CallExpr); ok && strings.HasSuffix(callName(st, c), "file.WriteAt") {
				writers = append(writers, name)
			}
			return true
		})
	}
	sort.Strings(writers)
	facts["storage.file_writers"] = writers
	callersOf := func(target string) []string {
		var cs []string
		for name, fd := range sf {
			ast.Inspect(fd.Body, func(n ast.Node) bool {
				if c, ok := n.(*ast.CallExpr); ok {
					cn := callName(st, c)
					if cn == target || strings.HasSuffix(cn, "."+target) {
						cs = append(cs, name)
					}
				}
				return true
			})
		}
		sort.Strings(cs)
		return cs
	}
	facts["storage.callers.update"] = callersOf("update")
	facts["storage.callers.save"] = callersOf("save")
	facts["storage.callers.flushPages"] = callersOf("flushPages")
	facts["storage.callers.startFlusher"] = callersOf("startFlusher")
	facts["storage.callers.flushPagesLocked"] = callersOf("flushPagesLocked")
	facts["storage.callers.closeLocked"] = callersOf("closeLocked")
	facts["storage.callers.createTable"] = callersOf("createTable")
	for _, fn := range []string{"fileStore.fetch", "fileStore.update", "btreeNode.encodeLeaf", "btreeNode.decodeLeaf", "btreeNode.decodeInternal", "btreeNode.encodeInternal",
		"btreeNode.split", "btreeNode.updateCell", "btreeNode.insertLeafCell", "BTree.findCell", "BTree.scanRight", "BTree.scanLeft", "WALBatch.replay", "wal.read", "wal.flush", "LRUCache.set", "LRUCache.get"} {
		if fd, ok := sf[fn]; ok {
			facts["panics.storage."+fn] = st.panicSites(fd)
		}
	}

	// engine
	en, err := load(*repo, "engine")
	if err == nil {
		ef := en.funcs()
		var names []string
		for n := range ef {
			names = append(names, n)
		}
		sort.Strings(names)
		for _, n := range names {
			if strings.HasPrefix(n, "Evaluate") || n == "Session.ExecQuery" || n == "Session.Close" {
				facts["skeleton.engine."+n] = en.skeleton(ef[n], func(c string) bool {
					return strings.HasPrefix(c, "rm.") || strings.HasPrefix(c, "storage.") || strings.HasPrefix(c, "s.RelationService") || strings.HasPrefix(c, "Evaluate") || c == "filterRows" || c == "panic"
				})
			}
			facts["panics.engine."+n] = en.panicSites(ef[n])
		}
	}

	// sql
	sq, err := load(*repo, "sql")
	if err == nil {
		sq.constants(facts, "const.sql.")
		qf := sq.funcs()
		var names []string
		for n := range qf {
			names = append(names, n)
		}
		sort.Strings(names)
		// the buffer machine of the scanner (Model/ScanBuf.lean is a transcription of it)
		for _, n := range []string{"Scanner.next", "Scanner.Next", "Scanner.Peek", "Scanner.Init"} {
			if fd, ok := qf[n]; ok {
				facts["body.sql."+n] = sq.src(fd.Body)
			}
		}
		for _, n := range names {
			if strings.HasPrefix(n, "Parser.") || strings.HasPrefix(n, "TokenList.") || strings.HasPrefix(n, "tokenScanner.") || n == "Token.Val" || n == "validateGroupByFields" || n == "unquote" {
				facts["panics.sql."+n] = sq.panicSites(qf[n])
			}
		}
		// Tokens table
		tokens := map[string]string{}
		for _, f := range sq.files {
			ast.Inspect(f, func(n ast.Node) bool {
				vs, ok := n.(*ast.ValueSpec)
				if !ok || len(vs.Names) != 1 || vs.Names[0].Name != "Tokens" || len(vs.Values) != 1 {
					return true
				}
				if cl, ok := vs.Values[0].(*ast.CompositeLit); ok {
					for _, e := range cl.Elts {
						if kv, ok := e.(*ast.KeyValueExpr); ok {
							tokens[sq.src(kv.Key)] = strings.Trim(sq.src(kv.Value), "\"")
						}
					}
				}
				return false
			})
		}
		facts["sql.tokens"] = tokens
	}

	// cmd/console, cmd/csvimport
	for _, d := range []string{"cmd/console", "cmd/csvimport"} {
		cp, err := load(*repo, d)
		if err != nil {
			continue
		}
		cf := cp.funcs()
		for _, n := range []string{"csvToSql", "doBatchInsert", "colDataTypes", "Terminal.handleKey", "runTerminal", "splitStatements"} {
			if fd, ok := cf[n]; ok {
				facts["panics."+d+"."+n] = cp.panicSites(fd)
				if n == "doBatchInsert" || n == "runTerminal" {
					facts["skeleton."+d+"."+n] = cp.skeleton(fd, func(c string) bool {
						return strings.HasPrefix(c, "engine.") || strings.HasPrefix(c, "csvRead.") || c == "csvToSql" || strings.HasPrefix(c, "sess.") || strings.HasPrefix(c, "t.")
					})
				}
			}
		}
	}

	// the LRU capacity literal in newFileStore
	if fd, ok := sf["newFileStore"]; ok {
		ast.Inspect(fd.Body, func(n ast.Node) bool {
			if c, ok := n.(*ast.CallExpr); ok && callName(st, c) == "NewLRU" && len(c.Args) == 1 {
				if tv, ok := st.info.Types[c.Args[0]]; ok && tv.Value != nil {
					if v, ok := constant.Int64Val(tv.Value); ok {
						facts["lru.capacity"] = v
					}
				}
			}
			return true
		})
	}

	// which callers of newFileStore ask for the background flusher (second argument)
	flusher := map[string]string{}
	for name, fd := range sf {
		ast.Inspect(fd.Body, func(n ast.Node) bool {
			if c, ok := n.(*ast.CallExpr); ok && callName(st, c) == "newFileStore" && len(c.Args) == 2 {
				arg := "?"
				if id, ok := c.Args[1].(*ast.Ident); ok {
					arg = id.Name
				}
				if old, seen := flusher[name]; seen && old != arg {
					arg = "mixed"
				}
				flusher[name] = arg
			}
			return true
		})
	}
	facts["storage.newFileStore.autoFlush"] = flusher

	lockFacts(facts)

	b, _ := json.MarshalIndent(facts, "", " ")
	if err := os.WriteFile(*factsPath, b, 0644); err != nil {
		fmt.Fprintln(os.Stderr, err)
		os.Exit(1)
	}
	if *leanDir != "" {
		writeLean(*leanDir, facts)
	}
}

func strs(v interface{}) []string {
	switch x := v.(type) {
	case []string:
		return x
	case []interface{}:
		var out []string
		for _, e := range x {
			out = append(out, fmt.Sprint(e))
		}
		return out
	}
	return nil
}

func hasPrefixSeq(l []string, pre ...string) bool {
	if len(l) < len(pre) {
		return false
	}
	for i, p := range pre {
		if l[i] != p {
			return false
		}
	}
	return true
}

func indexOf(l []string, x string) int {
	for i, e := range l {
		if e == x {
			return i
		}
	}
	return -1
}

func subset(a []string, b ...string) bool {
	for _, x := range a {
		if indexOf(b, x) < 0 {
			return false
		}
	}
	return true
}

// lockFacts derives the boolean facts the lock model (C13) is parameterised by.
func lockFacts(facts map[string]interface{}) {
	br := map[string]bool{}
	for _, fn := range []string{"EvaluateInsert", "EvaluateUpdate", "EvaluateDelete", "EvaluateSelect"} {
		sk := strs(facts["skeleton.engine."+fn])
		br[fn] = hasPrefixSeq(sk, "call:rm.StartTxn", "defer:rm.EndTxn")
	}
	facts["lock.brackets"] = br
	ct := strs(facts["skeleton.storage.RelationService.CreateTable"])
	inner := strs(facts["skeleton.storage.RelationService.createTable"])
	// CREATE TABLE is one section under the exclusive lock: catalog change, then the flush of it
	// (a Close or a timer tick between the two would see, and write, a statement that may still fail)
	facts["lock.createTableLocked"] = hasPrefixSeq(ct, "call:rs.fs.lockExclusive", "defer:rs.fs.unlockExclusive") &&
		indexOf(inner, "call:rs.fs.flushPages") < 0 && indexOf(inner, "call:rs.fs.flushPagesLocked") < 0 &&
		indexOf(inner, "call:rs.fs.lockShared") < 0 && indexOf(inner, "call:rs.fs.lockExclusive") < 0 &&
		indexOf(ct, "call:rs.createTable") >= 0 &&
		indexOf(ct, "call:rs.createTable") < indexOf(ct, "call:rs.fs.flushPagesLocked") && indexOf(ct, "call:rs.createPage") < 0 &&
		subset(strs(facts["storage.callers.createTable"]), "RelationService.CreateTable")
	// flushPages = lock; flushPagesLocked; the locked body is reached only from there and from the two
	// close paths, which take the exclusive lock themselves before they call closeLocked
	fp := strs(facts["skeleton.storage.fileStore.flushPages"])
	cl := strs(facts["skeleton.storage.fileStore.close"])
	rc := strs(facts["skeleton.storage.RelationService.Close"])
	lockedBefore := func(sk []string, call string) bool {
		i, j := indexOf(sk, "call:"+call), -1
		for k, x := range sk {
			if strings.HasSuffix(x, "lockExclusive") && strings.HasPrefix(x, "call:") && !strings.Contains(x, "unlock") {
				j = k
				break
			}
		}
		return i >= 0 && j >= 0 && j < i
	}
	facts["lock.flushExclusive"] = hasPrefixSeq(fp, "call:f.lockExclusive", "defer:f.unlockExclusive") && indexOf(fp, "call:f.flushPagesLocked") >= 0 &&
		subset(strs(facts["storage.callers.flushPagesLocked"]), "fileStore.flushPages", "fileStore.closeLocked", "RelationService.CreateTable") &&
		subset(strs(facts["storage.callers.closeLocked"]), "fileStore.close", "RelationService.Close") &&
		lockedBefore(cl, "f.closeLocked") && lockedBefore(rc, "rs.fs.closeLocked") &&
		// the log is closed only after the lock is held (a running statement appends first)
		lockedBefore(rc, "rs.wal.close")
	st := strs(facts["skeleton.storage.RelationService.StartTxn"])
	en := strs(facts["skeleton.storage.RelationService.EndTxn"])
	facts["lock.txnIsSharedLock"] = len(st) == 1 && st[0] == "call:rs.fs.lockShared" && len(en) == 1 && en[0] == "call:rs.fs.unlockShared"
	facts["lock.pageWritesOnlyInFlush"] = subset(strs(facts["storage.file_writers"]), "fileStore.save", "fileStore.update") &&
		subset(strs(facts["storage.callers.update"]), "fileStore.flushPagesLocked") &&
		subset(strs(facts["storage.callers.save"]), "CreateDB", "fileStore.flushPagesLocked")
	logInside := true
	for _, fn := range []string{"EvaluateInsert", "EvaluateUpdate", "EvaluateDelete"} {
		sk := strs(facts["skeleton.engine."+fn])
		if indexOf(sk, "call:rm.FlushWALBatch") < 2 {
			logInside = false
		}
	}
	facts["lock.logAppendInsideBracket"] = logInside
	// start-up: the header is read under the exclusive lock (the flusher of the store is already running),
	// and the only store opened with a flusher outside OpenRelation is none (CreateDB changes pages without a lock)
	// the flusher goroutine is started in one place only, as the last step of open(), after every
	// read of the header: a flush rewrites the header from the fields open() fills
	op := strs(facts["skeleton.storage.fileStore.open"])
	lastRead, start := -1, indexOf(op, "call:f.startFlusher")
	for i, x := range op {
		if x == "call:binary.Read" {
			lastRead = i
		}
	}
	nf := strs(facts["skeleton.storage.newFileStore"])
	sf := strs(facts["skeleton.storage.fileStore.startFlusher"])
	facts["lock.flusherAfterHeaderRead"] = start > lastRead && lastRead >= 0 && indexOf(nf, "go{") < 0 && indexOf(nf, "call:time.NewTicker") < 0 &&
		indexOf(sf, "go{") >= 0 && indexOf(sf, "call:f.flushPages") >= 0 &&
		subset(strs(facts["storage.callers.startFlusher"]), "fileStore.open")
	fl, _ := facts["storage.newFileStore.autoFlush"].(map[string]string)
	only := true
	for caller, arg := range fl {
		if strings.HasPrefix(caller, "Verif") || strings.HasPrefix(caller, "verif") {
			continue
		}
		if caller == "OpenRelation" {
			only = only && arg == "true"
		} else {
			only = only && arg == "false"
		}
	}
	or := strs(facts["skeleton.storage.OpenRelation"])
	// Close closes the log only once it holds the exclusive lock (a running statement appends first),
	// and stops the flusher before it asks for the lock (the flusher may be waiting for it)
	facts["lock.closeLogInsideLock"] = lockedBefore(rc, "rs.wal.close") &&
		indexOf(rc, "call:rs.fs.stopFlusher") >= 0 && indexOf(rc, "call:rs.fs.stopFlusher") < indexOf(rc, "call:rs.fs.lockExclusive") &&
		indexOf(cl, "call:f.stopFlusher") >= 0 && indexOf(cl, "call:f.stopFlusher") < indexOf(cl, "call:f.lockExclusive")
	// an OpenRelation that fails after open() (which started the flusher) stops it before it returns
	orSk := strs(facts["skeleton.storage.OpenRelation"])
	stops := false
	if i := indexOf(orSk, "call:newWal"); i >= 0 && i+1 < len(orSk) && orSk[i+1] == "if{" {
		for _, x := range orSk[i+2:] {
			if x == "}" || x == "return" {
				break
			}
			if x == "call:fs.stopFlusher" {
				stops = true
			}
		}
	}
	facts["lock.failedOpenStopsFlusher"] = stops && indexOf(orSk, "call:fs.open") >= 0 && indexOf(orSk, "call:fs.open") < indexOf(orSk, "call:newWal")
	facts["lock.flusherOnlyAfterOpen"] = only && fl["OpenRelation"] == "true" && fl["CreateDB"] == "false" &&
		indexOf(or, "call:newFileStore") >= 0 && indexOf(or, "call:fs.open") > indexOf(or, "call:newFileStore")
}

func writeIfChanged(path string, content []byte) {
	if old, err := os.ReadFile(path); err == nil && bytes.Equal(old, content) {
		return
	}
	os.MkdirAll(filepath.Dir(path), 0755)
	os.WriteFile(path, content, 0644)
}

func leanName(s string) string {
	if s == "" {
		return s
	}
	return s
}

func writeLean(dir string, facts map[string]interface{}) {
	var b bytes.Buffer
	b.WriteString("/- GENERATED by tools/extract from /repo — do not edit. -/\nnamespace Mkdb.Generated\n\n")
	var keys []string
	for k := range facts {
		if strings.HasPrefix(k, "const.storage.") {
			keys = append(keys, k)
		}
	}
	sort.Strings(keys)
	for _, k := range keys {
		v := facts[k].(int64)
		name := strings.TrimPrefix(k, "const.storage.")
		if v >= 0 {
			fmt.Fprintf(&b, "def %s : Nat := %d\n", leanName("c_"+name), v)
		}
	}
	if v, ok := facts["lru.capacity"].(int64); ok {
		fmt.Fprintf(&b, "def c_lruCapacity : Nat := %d\n", v)
	}
	b.WriteString("\nend Mkdb.Generated\n")
	writeIfChanged(filepath.Join(dir, "Consts.lean"), b.Bytes())

	// token table: enum value and printed text of every token type, in enum order
	var tb bytes.Buffer
	tb.WriteString("/- GENERATED by tools/extract from /repo/sql/scanner.go — do not edit. -/\nnamespace Mkdb.Generated\n\n")
	type kv struct {
		name string
		val  int64
	}
	var toks []kv
	for k, v := range facts {
		if strings.HasPrefix(k, "const.sql.") {
			if iv, ok := v.(int64); ok {
				toks = append(toks, kv{strings.TrimPrefix(k, "const.sql."), iv})
			}
		}
	}
	sort.Slice(toks, func(i, j int) bool {
		if toks[i].val != toks[j].val {
			return toks[i].val < toks[j].val
		}
		return toks[i].name < toks[j].name
	})
	table, _ := facts["sql.tokens"].(map[string]string)
	tb.WriteString("/-- (Go constant name, value, text in the `Tokens` map or \"\") -/\ndef tokenTable : List (String × Int × String) := [\n")
	for i, t := range toks {
		sep := ","
		if i == len(toks)-1 {
			sep = ""
		}
		fmt.Fprintf(&tb, "  (%q, %d, %q)%s\n", t.name, t.val, table[t.name], sep)
	}
	tb.WriteString("]\n\n")
	for _, t := range toks {
		fmt.Fprintf(&tb, "def t_%s : Int := %d\n", t.name, t.val)
	}
	tb.WriteString("\nend Mkdb.Generated\n")
	writeIfChanged(filepath.Join(dir, "Tokens.lean"), tb.Bytes())

	// lock facts
	var lb bytes.Buffer
	lb.WriteString("/- GENERATED by tools/extract from /repo (engine/*.go, storage/page.go, storage/relation.go) — do not edit. -/\nnamespace Mkdb.Generated\n\n")
	bl := func(v interface{}) string {
		if b, ok := v.(bool); ok && b {
			return "true"
		}
		return "false"
	}
	lb.WriteString("/-- statement evaluators that open with `rm.StartTxn(); defer rm.EndTxn()` -/\ndef lockBrackets : List (String × Bool) := [\n")
	br, _ := facts["lock.brackets"].(map[string]bool)
	names := []string{"EvaluateInsert", "EvaluateUpdate", "EvaluateDelete", "EvaluateSelect"}
	for i, n := range names {
		sep := ","
		if i == len(names)-1 {
			sep = ""
		}
		fmt.Fprintf(&lb, "  (%q, %s)%s\n", n, bl(br[n]), sep)
	}
	lb.WriteString("]\n")
	fmt.Fprintf(&lb, "def lockCreateTableLocked : Bool := %s\n", bl(facts["lock.createTableLocked"]))
	fmt.Fprintf(&lb, "def lockFlushExclusive : Bool := %s\n", bl(facts["lock.flushExclusive"]))
	fmt.Fprintf(&lb, "def lockTxnIsSharedLock : Bool := %s\n", bl(facts["lock.txnIsSharedLock"]))
	fmt.Fprintf(&lb, "def lockPageWritesOnlyInFlush : Bool := %s\n", bl(facts["lock.pageWritesOnlyInFlush"]))
	fmt.Fprintf(&lb, "def lockLogAppendInsideBracket : Bool := %s\n", bl(facts["lock.logAppendInsideBracket"]))
	fmt.Fprintf(&lb, "def lockFlusherAfterHeaderRead : Bool := %s\n", bl(facts["lock.flusherAfterHeaderRead"]))
	fmt.Fprintf(&lb, "def lockFlusherOnlyAfterOpen : Bool := %s\n", bl(facts["lock.flusherOnlyAfterOpen"]))
	fmt.Fprintf(&lb, "def lockCloseLogInsideLock : Bool := %s\n", bl(facts["lock.closeLogInsideLock"]))
	fmt.Fprintf(&lb, "def lockFailedOpenStopsFlusher : Bool := %s\n", bl(facts["lock.failedOpenStopsFlusher"]))
	lb.WriteString("\nend Mkdb.Generated\n")
	writeIfChanged(filepath.Join(dir, "Locks.lean"), lb.Bytes())
	writeLower(dir)
}

// writeLower writes the simple lower-case mapping of the Go library this program is built with (the
// one mkdb is built with: GOTOOLCHAIN=local) - what strings.ToLower applies rune by rune to a
// database name (storage/file.go): every pair (r, unicode.ToLower(r)) with unicode.ToLower(r) != r,
// r ascending over all code points.  The pairs come in lists of at most 32 (one long literal is slow
// to elaborate); lowerChunks pairs each list with its last (largest) r, so that a lookup picks the
// list first (the kernel of Lean checks facts about the whole table by evaluation: a linear search
// per pair is too slow).  Core Lean only: the driver links this file.
func writeLower(dir string) {
	var pairs [][2]rune
	for r := rune(0); r <= unicode.MaxRune; r++ {
		if l := unicode.ToLower(r); l != r {
			pairs = append(pairs, [2]rune{r, l})
		}
	}
	var b bytes.Buffer
	fmt.Fprintf(&b, "/- GENERATED by tools/extract from the unicode package of the Go library (Unicode %s) — do not edit. -/\nnamespace Mkdb.Generated\n\n", unicode.Version)
	fmt.Fprintf(&b, "def lowerUnicodeVersion : String := %q\n\n", unicode.Version)
	const chunk = 32
	var last []rune
	for i := 0; i < len(pairs); i += chunk {
		end := i + chunk
		if end > len(pairs) {
			end = len(pairs)
		}
		fmt.Fprintf(&b, "def lowerPairs%d : List (Nat × Nat) := [", len(last))
		for k, p := range pairs[i:end] {
			if k%8 == 0 {
				b.WriteString("\n ")
			}
			sep := ","
			if i+k == end-1 {
				sep = ""
			}
			fmt.Fprintf(&b, " (%d, %d)%s", p[0], p[1], sep)
		}
		b.WriteString("]\n\n")
		last = append(last, pairs[end-1][0])
	}
	b.WriteString("/-- the lists in order, each with its last (largest) r -/\ndef lowerChunks : List (Nat × List (Nat × Nat)) := [")
	for k, l := range last {
		if k%4 == 0 {
			b.WriteString("\n ")
		}
		sep := ","
		if k == len(last)-1 {
			sep = ""
		}
		fmt.Fprintf(&b, " (%d, lowerPairs%d)%s", l, k, sep)
	}
	b.WriteString("]\n\n")
	b.WriteString("/-- every (r, unicode.ToLower(r)) with unicode.ToLower(r) != r, r ascending -/\ndef lowerPairsList : List (Nat × Nat) :=\n  ")
	for k := range last {
		if k > 0 {
			b.WriteString(" ++ (")
		}
		fmt.Fprintf(&b, "lowerPairs%d", k)
	}
	if len(last) == 0 {
		b.WriteString("[]")
	} else {
		b.WriteString(strings.Repeat(")", len(last)-1))
	}
	fmt.Fprintf(&b, "\n\ndef lowerPairsCount : Nat := %d\n\n", len(pairs))
	b.WriteString("def lowerPairs : Array (Nat × Nat) := lowerPairsList.toArray\n")
	b.WriteString("\nend Mkdb.Generated\n")
	writeIfChanged(filepath.Join(dir, "Lower.lean"), b.Bytes())
}
