package engine

import (
	"time"
	"fmt"
	"os"
	"strings"
	"testing"

	"github.com/mk6i/mkdb/sql"
	"github.com/mk6i/mkdb/storage"
)

// helper: fresh data dir in a temp directory
func zzSetup(t *testing.T) *Session {
	t.Helper()
	dir := t.TempDir()
	old, _ := os.Getwd()
	if err := os.Chdir(dir); err != nil {
		t.Fatal(err)
	}
	t.Cleanup(func() { os.Chdir(old) })
	if err := storage.InitStorage(); err != nil {
		t.Fatal(err)
	}
	devnull, _ := os.OpenFile(os.DevNull, os.O_WRONLY, 0)
	oldOut := os.Stdout
	os.Stdout = devnull
	t.Cleanup(func() { os.Stdout = oldOut })
	s := &Session{}
	zzMust(t, s, "CREATE DATABASE d")
	zzMust(t, s, "USE d")
	return s
}

func zzMust(t *testing.T, s *Session, q string) {
	t.Helper()
	if err := s.ExecQuery(q); err != nil {
		t.Fatalf("%s: %v", q, err)
	}
}

func zzExec(t *testing.T, s *Session, q string) error {
	t.Helper()
	err := s.ExecQuery(q)
	t.Logf("EXEC %q -> %v", q, err)
	return err
}

func zzSelect(t *testing.T, s *Session, q string) string {
	t.Helper()
	ts := sql.NewTokenScanner(strings.NewReader(q))
	tl := sql.TokenList{}
	for ts.Next() {
		tl.Add(ts.Cur())
	}
	p := sql.Parser{TokenList: tl}
	st, err := p.Parse()
	if err != nil {
		return "PARSEERR " + err.Error()
	}
	rows, fields, err := EvaluateSelect(st.(sql.Select), s.RelationService)
	if err != nil {
		return "ERR " + err.Error()
	}
	var sb strings.Builder
	for _, f := range fields {
		sb.WriteString(fmt.Sprintf("%v,", f.Column))
	}
	sb.WriteString(":")
	for _, r := range rows {
		sb.WriteString(fmt.Sprintf(" %d(", r.RowID))
		for i, v := range r.Vals {
			if i > 0 {
				sb.WriteString("|")
			}
			sb.WriteString(fmt.Sprintf("%#v", v))
		}
		sb.WriteString(")")
	}
	return sb.String()
}

func zzRestart(t *testing.T, s *Session) *Session {
	t.Helper()
	if err := s.Close(); err != nil {
		t.Fatalf("close: %v", err)
	}
	if err := storage.InitStorage(); err != nil {
		t.Fatalf("init: %v", err)
	}
	n := &Session{}
	zzMust(t, n, "USE d")
	return n
}

func TestZZLiterals(t *testing.T) {
	s := zzSetup(t)
	zzMust(t, s, "CREATE TABLE t (a int, b varchar(10), c boolean, d bigint)")
	for _, q := range []string{
		"INSERT INTO t VALUES (-5, 'x', TRUE, -7)",
		"INSERT INTO t VALUES (NULL, NULL, NULL, NULL)",
		"INSERT INTO t VALUES (1, 'it''s', FALSE, 2)",
		`INSERT INTO t VALUES (1, 'a\nb', FALSE, 2)`,
		`INSERT INTO t VALUES (1, "dq", FALSE, 2)`,
		`INSERT INTO t VALUES (1, 'a"b', FALSE, 2)`,
		"INSERT INTO t VALUES (1, '', FALSE, 2)",
		"INSERT INTO t VALUES (1, 'héllo wörld', true, 2)",
		"INSERT INTO t VALUES (1, '  sp  ', false, 2)",
		"INSERT INTO t VALUES (+1, 'plus', false, 2)",
		"INSERT INTO t VALUES (1, 'a\tb', false, 2)",
		"INSERT INTO t VALUES (1, 'a\nb', false, 2)",
		"INSERT INTO t VALUES (1, 'a\x00b', false, 2)",
		"INSERT INTO t VALUES (1, 'a\xffb', false, 2)",
		"INSERT INTO t VALUES (1, 'a--b', false, 2)",
		"INSERT INTO t VALUES (1, 'a//b', false, 2)",
		"INSERT INTO t VALUES (1, 'a/*b*/c', false, 2)",
		"INSERT INTO t VALUES (1, 'a;b', false, 2)",
		"INSERT INTO t (a) VALUES (3)",
		"INSERT INTO t (d, a) VALUES (9, 3)",
		"INSERT INTO t VALUES (1, 'x', false, 2), (2, 'y', true, 3)",
		"INSERT INTO t VALUES ()",
		"INSERT INTO t VALUES",
		"INSERT INTO t VALUES (1, 'x', false, 2),",
		"INSERT INTO t VALUES (2147483647, 'x', false, 9223372036854775807)",
		"INSERT INTO t VALUES (2147483648, 'x', false, 1)",
		"INSERT INTO t VALUES (1, 'x', false, 9223372036854775808)",
		"INSERT INTO t VALUES (1, 'x', 1, 1)",
		"INSERT INTO t VALUES (1, 'x', 'true', 1)",
		"INSERT INTO t VALUES (true, 'x', true, 1)",
		"INSERT INTO t VALUES (1, 5, true, 1)",
		"INSERT INTO t VALUES (1, x, true, 1)",
		"INSERT INTO t VALUES (1, 'x', true, 1.5)",
		"UPDATE t SET a = NULL",
		"UPDATE t SET a = -3 WHERE a = 3",
		"UPDATE t SET b = a",
	} {
		zzExec(t, s, q)
		t.Log("   ", zzSelect(t, s, "SELECT * FROM t"))
	}
}

func zzInsertV(s *Session, table string, cols []string, rows [][]interface{}) error {
	var tvc []sql.RowValueConstructor
	for _, r := range rows {
		tvc = append(tvc, sql.RowValueConstructor{RowValueConstructorList: r})
	}
	stmt := sql.InsertStatement{TableName: table, InsertColumnsAndSource: sql.InsertColumnsAndSource{
		InsertColumnList: sql.InsertColumnList{ColumnNames: cols},
		QueryExpression:  sql.TableValueConstructor{TableValueConstructorList: tvc},
	}}
	_, err := EvaluateInsert(stmt, s.RelationService)
	return err
}

// crash: abandon the session without Close (no flush), then recover
func zzCrash(t *testing.T, s *Session) *Session {
	t.Helper()
	// no Close: pages in cache are lost; wal is synced per statement
	if err := storage.InitStorage(); err != nil {
		t.Fatalf("init: %v", err)
	}
	n := &Session{}
	zzMust(t, n, "USE d")
	return n
}

func TestZZBytes(t *testing.T) {
	s := zzSetup(t)
	zzMust(t, s, "CREATE TABLE t (a int, b varchar(10), c bigint, e varchar(5))")
	rng := uint64(12345)
	next := func() uint64 { rng ^= rng << 13; rng ^= rng >> 7; rng ^= rng << 17; return rng }
	var want [][]interface{}
	for i := 0; i < 300; i++ {
		n := int(next() % 180)
		b := make([]byte, n)
		for k := range b {
			b[k] = byte(next())
		}
		m := int(next() % 180)
		e := make([]byte, m)
		for k := range e {
			e[k] = byte(next())
		}
		row := []interface{}{int64(int32(next())), string(b), int64(next()), string(e)}
		if next()%7 == 0 {
			row[1] = nil
		}
		if next()%7 == 0 {
			row[0] = nil
		}
		if err := zzInsertV(s, "t", nil, [][]interface{}{row}); err != nil {
			t.Fatalf("insert %d: %v", i, err)
		}
		want = append(want, row)
		if i == 100 {
			s = zzRestart(t, s)
		}
		if i == 200 {
			s = zzCrash(t, s)
		}
	}
	check := func(tag string) {
		rows, _, err := s.RelationService.Fetch("t")
		if err != nil {
			t.Fatalf("%s fetch: %v", tag, err)
		}
		if len(rows) != len(want) {
			t.Fatalf("%s: %d rows, want %d", tag, len(rows), len(want))
		}
		var last uint32
		for i, r := range rows {
			if r.RowID <= last {
				t.Fatalf("%s ids not increasing at %d", tag, i)
			}
			last = r.RowID
			for k := range r.Vals {
				if r.Vals[k] != want[i][k] {
					t.Fatalf("%s row %d col %d: got %#v want %#v", tag, i, k, r.Vals[k], want[i][k])
				}
			}
		}
		// the same through SELECT *
		got := zzSelect(t, s, "SELECT * FROM t")
		if !strings.HasPrefix(got, "a,b,c,e,:") {
			t.Fatalf("%s select header: %.40s", tag, got)
		}
	}
	check("live")
	s = zzCrash(t, s)
	check("after crash")
	s = zzRestart(t, s)
	check("after restart")
}

func TestZZManyTables(t *testing.T) {
	s := zzSetup(t)
	const N = 700
	for i := 0; i < N; i++ {
		zzMust(t, s, fmt.Sprintf("CREATE TABLE tab%d (a int, b%d varchar(%d), c bigint)", i, i, i+1))
		zzMust(t, s, fmt.Sprintf("INSERT INTO tab%d VALUES (%d, 'v%d', %d)", i, i, i, i*7))
	}
	check := func(tag string) {
		for i := 0; i < N; i++ {
			got := zzSelect(t, s, fmt.Sprintf("SELECT * FROM tab%d", i))
			want := fmt.Sprintf("a,b%d,c,: ", i)
			if !strings.HasPrefix(got, want) || !strings.Contains(got, fmt.Sprintf("(%d|\"v%d\"|%d)", i, i, i*7)) || strings.Count(got, "(") != 1 {
				t.Fatalf("%s tab%d: %s", tag, i, got)
			}
		}
		got := zzSelect(t, s, "SELECT table_name, field_name, field_length FROM sys_schema WHERE table_name = 'tab555'")
		t.Log(tag, got)
	}
	check("live")
	// failing creates: existing table, dup column
	if err := s.ExecQuery("CREATE TABLE tab5 (zz int)"); err == nil {
		t.Fatal("dup create accepted")
	}
	if err := s.ExecQuery("CREATE TABLE newt (a int, b int, a int)"); err == nil {
		t.Fatal("dup col accepted")
	}
	zzMust(t, s, "CREATE TABLE newt (q varchar(3))")
	t.Log(zzSelect(t, s, "SELECT * FROM newt"))
	t.Log(zzSelect(t, s, "SELECT field_name FROM sys_schema WHERE table_name = 'newt'"))
	s = zzRestart(t, s)
	check("restart")
	t.Log(zzSelect(t, s, "SELECT field_name FROM sys_schema WHERE table_name = 'newt'"))
	t.Log(zzSelect(t, s, "SELECT field_name FROM sys_schema WHERE table_name = 'tab5'"))
}

func TestZZWrap(t *testing.T) {
	s := zzSetup(t)
	zzMust(t, s, "CREATE TABLE t (a int)")
	zzMust(t, s, "INSERT INTO t VALUES (1), (2), (3)")
	if err := s.Close(); err != nil {
		t.Fatal(err)
	}
	f, err := os.OpenFile("data/d/tbl", os.O_RDWR, 0)
	if err != nil {
		t.Fatal(err)
	}
	f.WriteAt([]byte{0xfd, 0xff, 0xff, 0xff}, 0) // lastKey = 2^32-3
	f.Close()
	if err := storage.InitStorage(); err != nil {
		t.Fatal(err)
	}
	s = &Session{}
	zzMust(t, s, "USE d")
	for i := 4; i <= 9; i++ {
		err := s.ExecQuery(fmt.Sprintf("INSERT INTO t VALUES (%d)", i))
		t.Logf("insert %d -> %v", i, err)
		t.Log(zzSelect(t, s, "SELECT * FROM t"))
	}
}

type zzTab struct {
	name string
	cols []string // types
	rows [][]interface{}
}

func zzLit(v interface{}) string {
	switch x := v.(type) {
	case int64:
		return fmt.Sprint(x)
	case string:
		return "'" + x + "'"
	case bool:
		if x {
			return "TRUE"
		}
		return "FALSE"
	}
	return "NULL"
}

func TestZZSoak(t *testing.T) {
	s := zzSetup(t)
	rng := uint64(1122334455)
	next := func() uint64 { rng ^= rng << 13; rng ^= rng >> 7; rng ^= rng << 17; return rng }
	intn := func(n int) int { return int(next() % uint64(n)) }
	var tabs []*zzTab
	types := []string{"int", "varchar(40)", "boolean", "bigint"}
	genVal := func(ty string) interface{} {
		switch ty {
		case "int":
			return int64(intn(20))
		case "bigint":
			return int64(next() >> 2)
		case "boolean":
			return intn(2) == 0
		}
		n := intn(60)
		b := make([]byte, n)
		for i := range b {
			const cs = "abc XYZ019_-%\"/*;,()"
			b[i] = cs[intn(len(cs))]
		}
		return string(b)
	}
	verify := func(tag string) {
		for _, tb := range tabs {
			s.RelationService.StartTxn()
			rows, _, err := s.RelationService.Fetch(tb.name)
			s.RelationService.EndTxn()
			if err != nil {
				t.Fatalf("%s fetch %s: %v", tag, tb.name, err)
			}
			if len(rows) != len(tb.rows) {
				t.Fatalf("%s %s: %d rows want %d", tag, tb.name, len(rows), len(tb.rows))
			}
			var last uint32
			for i, r := range rows {
				if i > 0 && r.RowID <= last {
					t.Fatalf("%s %s: ids", tag, tb.name)
				}
				last = r.RowID
				for k := range r.Vals {
					if r.Vals[k] != tb.rows[i][k] {
						t.Fatalf("%s %s row %d col %d got %#v want %#v", tag, tb.name, i, k, r.Vals[k], tb.rows[i][k])
					}
				}
			}
		}
	}
	steps := 2500
	for st := 0; st < steps; st++ {
		if len(tabs) == 0 || (len(tabs) < 6 && intn(40) == 0) {
			tb := &zzTab{name: fmt.Sprintf("t%d", len(tabs))}
			var defs []string
			for k, n := 0, 1+intn(5); k < n; k++ {
				ty := types[intn(4)]
				tb.cols = append(tb.cols, ty)
				defs = append(defs, fmt.Sprintf("c%d %s", k, ty))
			}
			zzMust(t, s, "CREATE TABLE "+tb.name+" ("+strings.Join(defs, ", ")+")")
			tabs = append(tabs, tb)
			continue
		}
		tb := tabs[intn(len(tabs))]
		switch x := intn(100); {
		case x < 55:
			// insert with random column subset in random order
			n := 1 + intn(6)
			perm := []int{}
			for k := range tb.cols {
				if intn(4) != 0 {
					perm = append(perm, k)
				}
			}
			for i := len(perm) - 1; i > 0; i-- {
				j := intn(i + 1)
				perm[i], perm[j] = perm[j], perm[i]
			}
			if len(perm) == 0 {
				perm = []int{0}
			}
			var names []string
			for _, k := range perm {
				names = append(names, fmt.Sprintf("c%d", k))
			}
			var vs []string
			var newRows [][]interface{}
			for r := 0; r < n; r++ {
				row := make([]interface{}, len(tb.cols))
				var lits []string
				for _, k := range perm {
					row[k] = genVal(tb.cols[k])
					lits = append(lits, zzLit(row[k]))
				}
				newRows = append(newRows, row)
				vs = append(vs, "("+strings.Join(lits, ", ")+")")
			}
			zzMust(t, s, "INSERT INTO "+tb.name+" ("+strings.Join(names, ", ")+") VALUES "+strings.Join(vs, ", "))
			tb.rows = append(tb.rows, newRows...)
		case x < 75:
			k := intn(len(tb.cols))
			v := genVal(tb.cols[k])
			w := intn(len(tb.cols))
			wv := genVal(tb.cols[w])
			op := []string{"=", "!="}[intn(2)]
			if tb.cols[w] == "int" && intn(2) == 0 {
				op = []string{"<", ">=", ">", "<="}[intn(4)]
			}
			zzMust(t, s, fmt.Sprintf("UPDATE %s SET c%d = %s WHERE c%d %s %s", tb.name, k, zzLit(v), w, op, zzLit(wv)))
			for _, r := range tb.rows {
				if zzCmp(r[w], op, wv) {
					r[k] = v
				}
			}
		default:
			w := intn(len(tb.cols))
			wv := genVal(tb.cols[w])
			op := "="
			if tb.cols[w] == "int" {
				op = []string{"<", ">=", "=", "="}[intn(4)]
			}
			zzMust(t, s, fmt.Sprintf("DELETE FROM %s WHERE c%d %s %s", tb.name, w, op, zzLit(wv)))
			var keep [][]interface{}
			for _, r := range tb.rows {
				if !zzCmp(r[w], op, wv) {
					keep = append(keep, r)
				}
			}
			tb.rows = keep
		}
		if intn(60) == 0 {
			time.Sleep(120 * time.Millisecond) // let the page flusher tick
		}
		if intn(50) == 0 {
			verify(fmt.Sprintf("step %d", st))
		}
		if intn(300) == 0 {
			s = zzRestart(t, s)
			verify(fmt.Sprintf("restart at %d", st))
		}
	}
	verify("end")
	s = zzRestart(t, s)
	verify("end restart")
	total := 0
	for _, tb := range tabs {
		total += len(tb.rows)
	}
	t.Logf("tables %d rows %d", len(tabs), total)
}

func zzCmp(a interface{}, op string, b interface{}) bool {
	switch op {
	case "=":
		return a == b
	case "!=":
		return a != b
	}
	if a == nil || b == nil {
		return false
	}
	x, y := a.(int64), b.(int64)
	switch op {
	case "<":
		return x < y
	case "<=":
		return x <= y
	case ">":
		return x > y
	}
	return x >= y
}

func TestZZMillion(t *testing.T) {
	s := zzSetup(t)
	zzMust(t, s, "CREATE TABLE big (a int)")
	zzMust(t, s, "CREATE TABLE other (a int)")
	const N = 1000000
	const per = 500
	start := time.Now()
	for i := 0; i < N; i += per {
		var sb strings.Builder
		sb.WriteString("INSERT INTO big VALUES ")
		for k := 0; k < per; k++ {
			if k > 0 {
				sb.WriteString(", ")
			}
			fmt.Fprintf(&sb, "(%d)", i+k)
		}
		if err := s.ExecQuery(sb.String()); err != nil {
			t.Fatalf("insert at %d: %v", i, err)
		}
		if i%100000 == 0 {
			zzMust(t, s, fmt.Sprintf("INSERT INTO other VALUES (%d)", i))
		}
	}
	t.Logf("inserted in %v", time.Since(start))
	check := func(tag string, skip func(int) bool) {
		s.RelationService.StartTxn()
		rows, _, err := s.RelationService.Fetch("big")
		s.RelationService.EndTxn()
		if err != nil {
			t.Fatalf("%s: %v", tag, err)
		}
		want := 0
		var last uint32
		for i, r := range rows {
			for want < N && skip(want) {
				want++
			}
			if r.Vals[0] != int64(want) {
				t.Fatalf("%s: row %d holds %v want %d", tag, i, r.Vals[0], want)
			}
			if i > 0 && r.RowID <= last {
				t.Fatalf("%s: ids", tag)
			}
			last = r.RowID
			want++
		}
		for want < N && skip(want) {
			want++
		}
		if want != N {
			t.Fatalf("%s: ended at %d", tag, want)
		}
	}
	none := func(int) bool { return false }
	check("live", none)
	s = zzRestart(t, s)
	check("restart", none)
	zzMust(t, s, "DELETE FROM big WHERE a >= 999990")
	zzMust(t, s, "UPDATE big SET a = 5 WHERE a = 5")
	del := func(i int) bool { return i >= 999990 }
	check("after delete", del)
	s = zzRestart(t, s)
	check("after delete restart", del)
	t.Log(zzSelect(t, s, "SELECT * FROM other"))
}
