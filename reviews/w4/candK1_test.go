package main

// Candidate K1 (C20, program glue): a statement that arrives as a bracketed paste
// (ESC[200~ ... ESC[201~, what a terminal in bracketed-paste mode sends for Ctrl-V /
// middle click) is returned by Terminal.ReadLine TOGETHER WITH the non-nil error
// ErrPasteIndicator (go_terminal.go, readLine: "if lineIsPasted { err = ErrPasteIndicator }").
// runTerminal (cmd/console/main.go:62-68) treats every error except io.EOF as fatal and
// returns before the loop that calls sess.ExecQuery: the pasted statements are dropped and
// the console ends with "error: terminal: ErrPasteIndicator not correctly handled".
//
// The loop below is the loop of runTerminal with ExecQuery replaced by a recorder.
//
// Copy to cmd/console/ and run:  go test ./cmd/console -run TestCandK1 -count=1
//
// Precondition, stated honestly: the terminal must already be in bracketed-paste mode
// (DECSET 2004); mkdb itself never switches it on, so this needs a terminal on which an
// earlier program left the mode set (or a multiplexer that always brackets pastes).

import (
	"io"
	"reflect"
	"strings"
	"testing"
)

type candK1RW struct {
	io.Reader
	io.Writer
}

func TestCandK1PastedStatementIsHandedToTheEngine(t *testing.T) {
	typed := []string{"INSERT INTO t VALUES (1, 'a;b');", "SELECT * FROM t;"}
	in := "\x1b[200~" + typed[0] + "\r" + typed[1] + "\r" + "\x1b[201~"
	term := NewTerminal(candK1RW{strings.NewReader(in), io.Discard}, "")

	var handed []string
	for {
		lines, err := term.ReadLine()
		if err == io.EOF {
			break
		} else if err != nil {
			// runTerminal: "return err" - the statements in `lines` never reach ExecQuery
			t.Fatalf("console ends with %q; statements %q were read but are not executed; handed over so far: %q", err, lines, handed)
		}
		handed = append(handed, lines...)
	}
	if !reflect.DeepEqual(handed, typed) {
		t.Fatalf("handed over %q, typed %q", handed, typed)
	}
}
