package sql

import (
	"math/rand"
	"strings"
	"testing"
	"time"
)

func TestZZFuzz(t *testing.T) {
	alphabet := []string{"SELECT", "FROM", "WHERE", "INSERT", "INTO", "VALUES", "UPDATE", "SET", "DELETE", "CREATE", "TABLE", "GROUP", "BY", "ORDER", "LIMIT", "OFFSET", "JOIN", "LEFT", "ON", "AS", "COUNT", "AVG", "VARCHAR", "INT",
		" ", " ", "\n", "\r", "\t", "'", "\"", "`", "\\", "a", "t", "1", "9", ".", ",", "(", ")", "=", "!", "<", ">", "*", ";", "/", "/*", "*/", "//", "_", "e", "x", "0", "ü", "ı", "\xff", "\xc3", "\x00", "OR", "AND", "-", "+", " ", "日本", "\xf0\x9f\x98", "0x", "0b", "1e", "1.", ".5", "\ufeff",
		strings.Repeat("a", 1020), strings.Repeat("é", 511), strings.Repeat(" ", 1023), "'" + strings.Repeat("x", 1022), "/*" + strings.Repeat("y", 1021)}
	deadline := time.Now().Add(40 * time.Second)
	r := rand.New(rand.NewSource(4))
	n := 0
	for time.Now().Before(deadline) {
		var sb strings.Builder
		k := r.Intn(30)
		for j := 0; j < k; j++ {
			sb.WriteString(alphabet[r.Intn(len(alphabet))])
		}
		q := sb.String()
		done := make(chan interface{}, 1)
		go func() {
			_, _, _, pan := probeParse(q)
			done <- pan
		}()
		select {
		case pan := <-done:
			if pan != nil {
				t.Fatalf("panic %v on %q", pan, q)
			}
		case <-time.After(5 * time.Second):
			t.Fatalf("hang on %q", q)
		}
		n++
	}
	t.Logf("%d inputs", n)
}
