package sql

import (
	"fmt"
	"runtime"
	"strings"
	"testing"
	"time"
)

func TestZZMem(t *testing.T) {
	n := 8 << 20
	inputs := map[string]string{
		"many-idents":  strings.Repeat("a ", n/2),
		"one-ident":    strings.Repeat("a", n),
		"one-string":   "SELECT '" + strings.Repeat("x", n) + "'",
		"open-string":  "SELECT '" + strings.Repeat("x", n),
		"commas":       "INSERT INTO t VALUES (" + strings.Repeat("1,", n/2) + "1)",
		"rows":         "INSERT INTO t VALUES " + strings.Repeat("(1),", n/4) + "(1)",
		"or-chain":     "SELECT a FROM t WHERE " + strings.Repeat("a=1 OR ", 300000) + "a=1",
		"and-chain":    "SELECT a FROM t WHERE " + strings.Repeat("a=1 AND ", 300000) + "a=1",
		"nul":          strings.Repeat("\x00", 1<<20),
		"bad-utf8":     strings.Repeat("\xff", 1<<20),
		"quotes":       strings.Repeat("'", n),
		"backslashes":  "'" + strings.Repeat("\\", n),
		"open-comment": "SELECT /*" + strings.Repeat("*", n),
		"comments":     strings.Repeat("/**/", n/4),
		"semis":        "SELECT 1" + strings.Repeat(";", n),
		"dots":         "SELECT " + strings.Repeat("a.", n/2),
		"excl":         strings.Repeat("!=", n/2),
	}
	for name, q := range inputs {
		var m0, m1 runtime.MemStats
		runtime.GC()
		runtime.ReadMemStats(&m0)
		t0 := time.Now()
		_, _, err, pan := probeParse(q)
		d := time.Since(t0)
		runtime.ReadMemStats(&m1)
		es := ""
		if err != nil {
			es = err.Error()
			if len(es) > 60 {
				es = es[:60]
			}
		}
		fmt.Printf("%-14s len=%d time=%v alloc=%dMB pan=%v err=%q\n", name, len(q), d, (m1.TotalAlloc-m0.TotalAlloc)>>20, pan, es)
	}
}
