package main

import (
	"fmt"
	"os"
	"os/exec"
	"strings"
	"testing"

	"github.com/mk6i/mkdb/storage"
)

var zzPkgDir, _ = os.Getwd() // before any test changes the directory

func TestZZProgramBig(t *testing.T) {
	dir := t.TempDir()
	bin := dir + "/csvimport.bin"
	build := exec.Command("go", "build", "-o", bin, ".")
	build.Dir = zzPkgDir
	if out, err := build.CombinedOutput(); err != nil {
		t.Fatalf("build: %v %s", err, out)
	}
	os.Chdir(dir)
	if err := storage.CreateDB("d"); err != nil {
		t.Fatal(err)
	}
	rm, err := storage.OpenRelation("d", false)
	if err != nil {
		t.Fatal(err)
	}
	if err := rm.CreateTable(&storage.Relation{Fields: []storage.FieldDef{{Name: "a", DataType: storage.TypeInt}, {Name: "b", DataType: storage.TypeVarchar, Len: 255}}}, "t"); err != nil {
		t.Fatal(err)
	}
	rm.Close()
	total := 0
	for run := 0; run < 2; run++ {
		var sb strings.Builder
		n := 30000
		for i := 0; i < n; i++ {
			if i%5 == 4 {
				fmt.Fprintf(&sb, "bad%d,x\n", i)
				continue
			}
			fmt.Fprintf(&sb, "%d,\"run %d; row %d, %s\"\n", i, run, i, strings.Repeat("q", i%150))
			total++
		}
		args := []string{"-db", "d", "-table", "t", "-dest-cols", "a,b", "-src-cols", "0,1"}
		if run == 0 {
			args = append(args, "-disable-wal-fsync")
		}
		cmd := exec.Command(bin, args...)
		cmd.Dir = dir
		cmd.Stdin = strings.NewReader(sb.String())
		out, err := cmd.CombinedOutput()
		if err != nil {
			t.Fatalf("run %d: %v\n%s", run, err, out)
		}
		nerr := strings.Count(string(out), "error parsing row")
		if nerr != n/5 {
			t.Fatalf("run %d: %d errors reported, want %d", run, nerr, n/5)
		}
	}
	if err := storage.InitStorage(); err != nil {
		t.Fatal(err)
	}
	rm2, err := storage.OpenRelation("d", false)
	if err != nil {
		t.Fatal(err)
	}
	defer rm2.Close()
	rm2.StartTxn()
	rows, _, err := rm2.Fetch("t")
	rm2.EndTxn()
	if err != nil || len(rows) != total {
		t.Fatalf("rows %d want %d err %v", len(rows), total, err)
	}
	k := 0
	for run := 0; run < 2; run++ {
		for i := 0; i < 30000; i++ {
			if i%5 == 4 {
				continue
			}
			want := fmt.Sprint([]interface{}{int64(i), fmt.Sprintf("run %d; row %d, %s", run, i, strings.Repeat("q", i%150))})
			if fmt.Sprint(rows[k].Vals) != want {
				t.Fatalf("row %d: %v want %v", k, rows[k].Vals, want)
			}
			k++
		}
	}
}
