package sql

import (
	"fmt"
	"strings"
	"testing"
)

func TestZZLists(t *testing.T) {
	seps := []string{",", ", ", " ,", " , ", ",\n", "\t,\r\n", " /* c */ , // x\n ", ",/**/"}
	for n := 1; n <= 6; n++ {
		for _, sep := range seps {
			var cols, vals, sets, defs, obs, rows []string
			for i := 0; i < n; i++ {
				cols = append(cols, fmt.Sprintf("c%d", i))
				vals = append(vals, fmt.Sprintf("%d", i))
				sets = append(sets, fmt.Sprintf("c%d = 'v%d'", i, i))
				defs = append(defs, fmt.Sprintf("c%d %s", i, []string{"int", "BIGINT", "varchar(7)", "Boolean"}[i%4]))
				obs = append(obs, fmt.Sprintf("t.c%d %s", i, []string{"", "asc", "DESC"}[i%3]))
				rows = append(rows, "("+strings.Join(vals, sep)+")")
			}
			j := func(l []string) string { return strings.Join(l, sep) }
			check := func(q string, f func(st interface{}) int) {
				_, st, err, pan := probeParse(q)
				if pan != nil || err != nil {
					t.Errorf("%q: err %v pan %v", q, err, pan)
					return
				}
				if got := f(st); got != n {
					t.Errorf("%q: %d elements, want %d", q, got, n)
				}
			}
			check("SELECT "+j(cols)+" FROM t", func(st interface{}) int { return len(st.(Select).SelectList) })
			check("SELECT "+j(cols)+", count(*) FROM t GROUP BY "+j(cols)+" ORDER BY c0 LIMIT 3", func(st interface{}) int {
				s := st.(Select)
				if len(s.SortSpecificationList) != 1 || !s.LimitActive || s.Limit != 3 {
					return -1
				}
				return len(s.GroupByClause)
			})
			check("SELECT * FROM t ORDER BY "+j(obs)+" OFFSET 2", func(st interface{}) int {
				s := st.(Select)
				if !s.OffsetActive || s.Offset != 2 {
					return -1
				}
				for i, o := range s.SortSpecificationList {
					want := TokenType(ASC)
					if i%3 == 2 {
						want = DESC
					}
					if o.OrderingSpecification.Type != want || o.SortKey.ColumnName != fmt.Sprintf("c%d", i) || o.SortKey.Qualifier != "t" {
						return -2
					}
				}
				return len(s.SortSpecificationList)
			})
			check("INSERT INTO t ("+j(cols)+") VALUES "+j(rows), func(st interface{}) int {
				is := st.(InsertStatement)
				tv := is.QueryExpression.(TableValueConstructor).TableValueConstructorList
				if len(tv) != n {
					return -1
				}
				for i, r := range tv {
					if len(r.RowValueConstructorList) != i+1 {
						return -2
					}
				}
				return len(is.ColumnNames)
			})
			check("UPDATE t SET "+j(sets)+" WHERE a = 1", func(st interface{}) int {
				u := st.(UpdateStatementSearched)
				if u.Where == nil {
					return -1
				}
				return len(u.Set)
			})
			check("CREATE TABLE t ("+j(defs)+")", func(st interface{}) int { return len(st.(CreateTable).Elements) })
		}
	}
}
