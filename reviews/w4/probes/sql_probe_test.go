package sql

import (
	"fmt"
	"os"
	"strings"
	"testing"
)

func probeParse(q string) (toks []Token, stmt interface{}, err error, pan interface{}) {
	defer func() {
		if r := recover(); r != nil {
			pan = r
		}
	}()
	ts := NewTokenScanner(strings.NewReader(q))
	tl := TokenList{}
	for ts.Next() {
		tl.Add(ts.Cur())
	}
	toks = tl.tokens
	p := Parser{TokenList: tl}
	stmt, err = p.Parse()
	return
}

func TestProbe(t *testing.T) {
	b, err := os.ReadFile(os.Getenv("PROBE_IN"))
	if err != nil {
		t.Skip()
	}
	for _, q := range strings.Split(string(b), "\n@@\n") {
		q = strings.TrimSuffix(q, "\n@@")
		toks, stmt, err, pan := probeParse(q)
		fmt.Printf("INPUT %q\n", q)
		var ts []string
		for _, tk := range toks {
			ts = append(ts, fmt.Sprintf("%d:%q", tk.Type, tk.Text))
		}
		fmt.Printf("  toks %s\n", strings.Join(ts, " "))
		if pan != nil {
			fmt.Printf("  PANIC %v\n", pan)
		} else if err != nil {
			fmt.Printf("  err %v\n", err)
		} else {
			fmt.Printf("  ok %s\n", compact(fmt.Sprintf("%+v", stmt)))
		}
	}
}

func compact(s string) string {
	for _, r := range []string{"ValueExpressionPrimary:", "SelectList:", "TableExpression:", "FromClause:", "ComparisonPredicate:", "SearchCondition:", "InsertColumnsAndSource:", "InsertColumnList:", "TableValueConstructorList:", "RowValueConstructorList:", "ColumnDefinition:", " Line:0 Column:0", "CorrelationName:<nil> ", "Qualifier: ", " AsClause:}", "LimitOffsetClause:"} {
		s = strings.ReplaceAll(s, r, "")
	}
	return s
}
