package main

import (
	"bytes"
	"fmt"
	"io"
	"math/rand"
	"reflect"
	"strings"
	"testing"
)

type zzRW struct {
	io.Reader
	io.Writer
}

func zzFeed(raw []byte) (subs [][]string, err error, pan interface{}) {
	defer func() {
		if r := recover(); r != nil {
			pan = r
		}
	}()
	term := NewTerminal(zzRW{bytes.NewReader(raw), io.Discard}, "")
	term.SetPrompt("\x1b[32m > \x1b[0m")
	for {
		lines, e := term.ReadLine()
		if e != nil {
			err = e
			if len(lines) > 0 {
				subs = append(subs, append([]string{"<with error>"}, lines...))
			}
			return
		}
		subs = append(subs, lines)
	}
}

// reference line editor: what the user sees as the text of the entry
type refEd struct {
	line []rune
	pos  int
	subs [][]string
}

func (e *refEd) key(k string) {
	switch k {
	case "\x7f", "\x08":
		if e.pos > 0 {
			e.line = append(e.line[:e.pos-1:e.pos-1], e.line[e.pos:]...)
			e.pos--
		}
	case "\x1b[D", "\x02":
		if e.pos > 0 {
			e.pos--
		}
	case "\x1b[C", "\x06":
		if e.pos < len(e.line) {
			e.pos++
		}
	case "\x1b[H", "\x01":
		e.pos = 0
	case "\x1b[F", "\x05":
		e.pos = len(e.line)
	case "\x0b":
		e.line = e.line[:e.pos:e.pos]
	case "\x15":
		e.line = append([]rune{}, e.line[e.pos:]...)
		e.pos = 0
	case "\r":
		stmts, rest := splitStatements(e.line)
		if len(strings.TrimSpace(string(rest))) == 0 {
			e.subs = append(e.subs, stmts)
			e.line = nil
			e.pos = 0
		} else {
			e.ins(' ')
		}
	default:
		for _, r := range k {
			e.ins(r)
		}
	}
}

func (e *refEd) ins(r rune) {
	nl := append([]rune{}, e.line[:e.pos]...)
	nl = append(nl, r)
	nl = append(nl, e.line[e.pos:]...)
	e.line = nl
	e.pos++
}

func TestZZEditKeys(t *testing.T) {
	keys := []string{"a", "b", " ", ";", "'", "x", "é", "日", "\r", "\r", "\x7f", "\x7f", "\x08", "\x1b[D", "\x1b[D", "\x1b[C", "\x1b[H", "\x1b[F", "\x01", "\x05", "\x02", "\x06", "\x0b", "\x15", "SELECT 1", strings.Repeat("w", 90)}
	r := rand.New(rand.NewSource(7))
	for it := 0; it < 20000; it++ {
		var raw []byte
		ref := &refEd{}
		n := r.Intn(40)
		var seq []string
		for i := 0; i < n; i++ {
			k := keys[r.Intn(len(keys))]
			seq = append(seq, k)
			raw = append(raw, k...)
			ref.key(k)
		}
		// finish: go to the end, close any quote, terminate
		for _, k := range []string{"\x05", "'", ";", "\r", "\x05", "\"", ";", "\r", "\x05", "'", ";", "\r"} {
			raw = append(raw, k...)
			ref.key(k)
		}
		subs, _, pan := zzFeed(raw)
		if pan != nil {
			t.Fatalf("panic %v on %q", pan, seq)
		}
		if !reflect.DeepEqual(subs, ref.subs) {
			t.Fatalf("keys %q\n got  %q\n want %q", seq, subs, ref.subs)
		}
	}
}

func TestZZPaste(t *testing.T) {
	for _, in := range []string{
		"\x1b[200~SELECT 1;\r\x1b[201~",
		"\x1b[200~SELECT 1;\x1b[201~\r",
		"\x1b[200~SELECT\t1;\nSELECT 2;\r\x1b[201~SELECT 3;\r",
		"INSERT INTO t VALUES ('http://x.org/a;b');\rSELECT 'a /* b'; SELECT 'c */ d';\r",
	} {
		subs, err, pan := zzFeed([]byte(in))
		fmt.Printf("%q -> %q err=%v pan=%v\n", in, subs, err, pan)
	}
}

func TestZZLongTyped(t *testing.T) {
	keys := []string{"a", "b", " ", ";", "'", "\"", "`", "\\", "é", "日", "😀", "\r", " ", " ", "�", "SELECT 'x;y' FROM t", "\xff", "\xe6\x97"}
	r := rand.New(rand.NewSource(9))
	for it := 0; it < 3000; it++ {
		var raw []byte
		ref := &refEd{}
		n := r.Intn(700)
		for i := 0; i < n; i++ {
			k := keys[r.Intn(len(keys))]
			raw = append(raw, k...)
		}
		// the reference sees what utf-8 decoding of the whole stream gives
		for _, rn := range string(raw) {
			ref.key(string(rn))
		}
		for _, k := range []string{"'", ";", "\r", "\"", ";", "\r", "`", ";", "\r", "'", ";", "\r"} {
			raw = append(raw, k...)
			ref.key(k)
		}
		subs, _, pan := zzFeed(raw)
		if pan != nil {
			t.Fatalf("panic %v", pan)
		}
		if !reflect.DeepEqual(subs, ref.subs) {
			t.Fatalf("raw %q\n got  %q\n want %q", raw, subs, ref.subs)
		}
	}
}
