package sql

import (
	"fmt"
	"strings"
	"testing"
)

func TestZZBufferBoundary(t *testing.T) {
	for pad := 0; pad < 2200; pad++ {
		p := strings.Repeat("x", pad)
		q := "SELECT '" + p + "' , 'héllo wörld 日本' AS \"ünï cöl\", abc_def_ghi >= 12345678 FROM tbl_名前 WHERE näme != 'zzz;/*' // c\n ORDER BY t.abc DESC LIMIT 987654"
		_, st, err, pan := probeParse(q)
		if err != nil || pan != nil {
			t.Fatalf("pad %d: %v %v", pad, err, pan)
		}
		s := st.(Select)
		got := fmt.Sprintf("%+v", s)
		want := fmt.Sprintf("%+v", Select{
			SelectList: SelectList{{ValueExpressionPrimary: p}, {ValueExpressionPrimary: "héllo wörld 日本", AsClause: "ünï cöl"},
				{ValueExpressionPrimary: Predicate{ComparisonPredicate{LHS: ColumnReference{ColumnName: "abc_def_ghi"}, CompOp: GTE, RHS: int64(12345678)}}}},
			TableExpression: TableExpression{FromClause: FromClause{TableName{Name: "tbl_名前"}},
				WhereClause: WhereClause{SearchCondition: Predicate{ComparisonPredicate{LHS: ColumnReference{ColumnName: "näme"}, CompOp: NEQ, RHS: "zzz;/*"}}}},
			SortSpecificationList: []SortSpecification{{SortKey: ColumnReference{Qualifier: "t", ColumnName: "abc"}, OrderingSpecification: s.SortSpecificationList[0].OrderingSpecification}},
			LimitOffsetClause:     LimitOffsetClause{LimitActive: true, Limit: 987654},
		})
		if got != want || s.SortSpecificationList[0].OrderingSpecification.Type != DESC {
			t.Fatalf("pad %d:\n got  %s\n want %s", pad, got, want)
		}
	}
	// a long multi-row INSERT: every row and value
	var rows []string
	n := 3000
	for i := 0; i < n; i++ {
		rows = append(rows, fmt.Sprintf("(%d, 'row %d é%s', %v)", i, i, strings.Repeat("p", i%37), i%2 == 0))
	}
	_, st, err, pan := probeParse("INSERT INTO big (a, b, c) VALUES " + strings.Join(rows, ",\n") + ";")
	if err != nil || pan != nil {
		t.Fatal(err, pan)
	}
	tv := st.(InsertStatement).QueryExpression.(TableValueConstructor).TableValueConstructorList
	if len(tv) != n {
		t.Fatalf("%d rows", len(tv))
	}
	for i, r := range tv {
		if fmt.Sprint(r.RowValueConstructorList) != fmt.Sprint([]interface{}{int64(i), fmt.Sprintf("row %d é%s", i, strings.Repeat("p", i%37)), i%2 == 0}) {
			t.Fatalf("row %d: %v", i, r)
		}
	}
}
