package main

import (
	"math/rand"
	"os"
	"strings"
	"testing"

	"github.com/mk6i/mkdb/sql"
)

// positions (rune index) of the ';' tokens the SQL scanner sees at top level
func scannerSemis(s string) []int {
	ts := sql.NewTokenScanner(strings.NewReader(s))
	var out []int
	for ts.Next() {
		tk := ts.Cur()
		if tk.Type == sql.SEMICOLON {
			out = append(out, tk.Column-1)
		}
	}
	return out
}

func consoleSemis(s string) []int {
	line := []rune(s)
	var out []int
	var quote rune
	escaped := false
	for cur, r := range line {
		switch {
		case escaped:
			escaped = false
		case quote != 0:
			if r == '\\' && quote != '`' {
				escaped = true
			} else if r == quote {
				quote = 0
			}
		case r == '\'' || r == '"' || r == '`':
			quote = r
		case r == ';':
			out = append(out, cur)
		}
	}
	return out
}

func TestZZSplitVsScanner(t *testing.T) {
	null, _ := os.OpenFile(os.DevNull, os.O_WRONLY, 0)
	os.Stderr = null
	alphabet := []string{"'", "'", "\"", "`", "\\", "\\", ";", ";", "a", " ", "0", "7", "x", "u", "U", "n", "é", "1.", ".", "e", "-", "*", "=", "!", "<"}
	r := rand.New(rand.NewSource(11))
	for it := 0; it < 300000; it++ {
		var sb strings.Builder
		for i, n := 0, r.Intn(14); i < n; i++ {
			sb.WriteString(alphabet[r.Intn(len(alphabet))])
		}
		s := sb.String()
		// the console's own check that its split agrees with splitStatements
		a, b := scannerSemis(s), consoleSemis(s)
		if len(a) != len(b) {
			t.Fatalf("%q: scanner %v console %v", s, a, b)
		}
		for i := range a {
			if a[i] != b[i] {
				t.Fatalf("%q: scanner %v console %v", s, a, b)
			}
		}
		stmts, _ := splitStatements([]rune(s))
		if len(stmts) != len(b) {
			t.Fatalf("%q: splitStatements %d pieces, %d semis", s, len(stmts), len(b))
		}
	}
}
