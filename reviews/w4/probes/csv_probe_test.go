package main

import (
	"fmt"
	"os"
	"strings"
	"testing"

	"github.com/mk6i/mkdb/engine"
	"github.com/mk6i/mkdb/storage"
)

func zzSetup(t *testing.T, fields []storage.FieldDef) *storage.RelationService {
	dir := t.TempDir()
	if err := os.Chdir(dir); err != nil {
		t.Fatal(err)
	}
	if err := storage.CreateDB("d"); err != nil {
		t.Fatal(err)
	}
	rm, err := storage.OpenRelation("d", false)
	if err != nil {
		t.Fatal(err)
	}
	if err := rm.CreateTable(&storage.Relation{Fields: fields}, "t"); err != nil {
		t.Fatal(err)
	}
	return rm
}

func zzRun(t *testing.T, rm *storage.RelationService, cfg importCfg, data string) (oks int, errs []string) {
	var err error
	cfg.table = "t"
	cfg.colTypes, err = colDataTypes(rm, cfg.table, cfg.dstCols)
	if err != nil {
		t.Fatalf("types: %v", err)
	}
	chOk, chErr := doBatchInsert(rm, cfg, strings.NewReader(data))
	for chOk != nil || chErr != nil {
		select {
		case _, ok := <-chOk:
			if ok {
				oks++
			} else {
				chOk = nil
			}
		case e, ok := <-chErr:
			if ok {
				errs = append(errs, e.Error())
			} else {
				chErr = nil
			}
		}
	}
	return
}

func TestZZCRLF(t *testing.T) {
	rm := zzSetup(t, []storage.FieldDef{{Name: "a", DataType: storage.TypeInt}, {Name: "b", DataType: storage.TypeVarchar, Len: 255}})
	defer rm.Close()
	oks, errs := zzRun(t, rm, importCfg{dstCols: []string{"a", "b"}, srcCols: []int{0, 1}, separator: ','}, "1,\"x\r\ny\"\r\n2,\"p\rq\"\r\n3,lone\rcr\r\n")
	fmt.Println(oks, errs)
	rm.StartTxn()
	rows, _, _ := rm.Fetch("t")
	rm.EndTxn()
	for _, r := range rows {
		fmt.Printf("%q\n", r.Vals)
	}
}

func TestZZDup(t *testing.T) {
	rm := zzSetup(t, []storage.FieldDef{{Name: "a", DataType: storage.TypeInt}, {Name: "b", DataType: storage.TypeVarchar, Len: 255}})
	defer rm.Close()
	oks, errs := zzRun(t, rm, importCfg{dstCols: []string{"a", "a"}, srcCols: []int{0, 1}, separator: ','}, "1,2\n3,3\n")
	fmt.Println(oks, errs)
	rm.StartTxn()
	rows, _, _ := rm.Fetch("t")
	rm.EndTxn()
	for _, r := range rows {
		fmt.Printf("%q\n", r.Vals)
	}
	oks, errs = zzRun(t, rm, importCfg{dstCols: []string{"a", "b"}, srcCols: []int{0}, separator: ','}, "1,2\n3,3\n")
	fmt.Println(oks, errs)
}

func TestZZBig(t *testing.T) {
	rm := zzSetup(t, []storage.FieldDef{{Name: "a", DataType: storage.TypeInt}, {Name: "b", DataType: storage.TypeVarchar, Len: 255}, {Name: "c", DataType: storage.TypeBigInt}, {Name: "d", DataType: storage.TypeBoolean}})
	defer rm.Close()
	var sb strings.Builder
	n := 60000
	want := 0
	for i := 0; i < n; i++ {
		switch i % 7 {
		case 3:
			fmt.Fprintf(&sb, "x%d,bad,1,t\n", i)
		case 5:
			fmt.Fprintf(&sb, "%d,\"un\"terminated,1,t\n", i)
		case 1:
			fmt.Fprintf(&sb, "3000000000,int overflow,1,t\n")
		case 2:
			fmt.Fprintf(&sb, "%d,%s,1,t\n", i, strings.Repeat("L", 450))
		default:
			fmt.Fprintf(&sb, "%d,row %d %s,%d,%s\n", i, i, strings.Repeat("p", i%200), int64(i)*1000003, []string{"t", "F", "\\N"}[i%3])
			want++
		}
	}
	oks, errs := zzRun(t, rm, importCfg{dstCols: []string{"b", "a", "d", "c"}, srcCols: []int{1, 0, 3, 2}, separator: ','}, sb.String())
	if oks != want || len(errs) != n-want {
		t.Fatalf("oks %d want %d errs %d", oks, want, len(errs))
	}
	rm.StartTxn()
	rows, _, err := rm.Fetch("t")
	rm.EndTxn()
	if err != nil || len(rows) != want {
		t.Fatalf("rows %d want %d err %v", len(rows), want, err)
	}
	k := 0
	for i := 0; i < n; i++ {
		if i%7 == 3 || i%7 == 5 || i%7 == 1 || i%7 == 2 {
			continue
		}
		r := rows[k]
		k++
		var d interface{}
		switch i % 3 {
		case 0:
			d = true
		case 1:
			d = false
		}
		exp := []interface{}{int64(i), fmt.Sprintf("row %d %s", i, strings.Repeat("p", i%200)), int64(i) * 1000003, d}
		if fmt.Sprint(r.Vals) != fmt.Sprint(exp) {
			t.Fatalf("row %d: got %v want %v", i, r.Vals, exp)
		}
	}
	_ = engine.EvaluateInsert
}
