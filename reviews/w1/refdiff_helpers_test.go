// Helpers of refdiff_test.go (copy both files to engine/; run: go test ./engine -run TestDiffRandom -count=1).
package engine

import (
	"fmt"
	"os"
	"strings"
	"testing"

	"github.com/mk6i/mkdb/sql"
	"github.com/mk6i/mkdb/storage"
)

// quiet runs f with stdout silenced (the engine prints a lot)
func quiet(f func()) {
	old := os.Stdout
	null, _ := os.OpenFile(os.DevNull, os.O_WRONLY, 0)
	os.Stdout = null
	defer func() { os.Stdout = old; null.Close() }()
	f()
}

type probeDB struct {
	s *Session
	t *testing.T
}

func newProbeDB(t *testing.T, name string) *probeDB {
	var s Session
	quiet(func() {
		if err := s.ExecQuery("CREATE DATABASE " + name); err != nil {
			t.Fatal(err)
		}
		if err := s.ExecQuery("USE " + name); err != nil {
			t.Fatal(err)
		}
	})
	return &probeDB{s: &s, t: t}
}

func (d *probeDB) exec(q string) error {
	var err error
	quiet(func() { err = d.s.ExecQuery(q) })
	return err
}

func (d *probeDB) must(q string) {
	if err := d.exec(q); err != nil {
		d.t.Fatalf("setup %s: %v", q, err)
	}
}

// insertRaw inserts one row of direct values (nil = NULL, negative numbers)
func (d *probeDB) insertRaw(table string, cols []string, vals ...interface{}) {
	stmt := sql.InsertStatement{TableName: table, InsertColumnsAndSource: sql.InsertColumnsAndSource{
		InsertColumnList: sql.InsertColumnList{ColumnNames: cols},
		QueryExpression:  sql.TableValueConstructor{TableValueConstructorList: []sql.RowValueConstructor{{RowValueConstructorList: vals}}},
	}}
	var err error
	quiet(func() { _, err = EvaluateInsert(stmt, d.s.RelationService) })
	if err != nil {
		d.t.Fatalf("insertRaw: %v", err)
	}
}

func (d *probeDB) sel(q string) (rows [][]interface{}, hdr []string, err error) {
	defer func() {
		if r := recover(); r != nil {
			err = fmt.Errorf("PANIC: %v", r)
		}
	}()
	quiet(func() {
		var st interface{}
		st, err = parseSQL(q)
		if err != nil {
			err = fmt.Errorf("parse: %w", err)
			return
		}
		se, ok := st.(sql.Select)
		if !ok {
			err = fmt.Errorf("not a select")
			return
		}
		var rs []*storage.Row
		var fs []*storage.Field
		rs, fs, err = EvaluateSelect(se, d.s.RelationService)
		if err != nil {
			return
		}
		for _, f := range fs {
			hdr = append(hdr, f.String())
		}
		for _, r := range rs {
			rows = append(rows, append([]interface{}{}, r.Vals...))
		}
	})
	return
}

func fmtRows(rows [][]interface{}) string {
	var sb strings.Builder
	for _, r := range rows {
		sb.WriteString(fmt.Sprintf("%v ", r))
	}
	return sb.String()
}

