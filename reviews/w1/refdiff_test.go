// Differential test of EvaluateSelect against a reference evaluator written from the text of C05-C07
// (NULL-bearing tables, negative values, histories of DELETE / UPDATE / INSERT before the SELECT, chains of
// up to three joins with ORDER BY / LIMIT / OFFSET, WHERE conditions of up to 7 predicates, aggregates in any
// select-list position).  The known running-average finding is recognised and not reported.
// copy to engine/ together with refdiff_helpers_test.go; run: DIFF_SEEDS=200 go test ./engine -run TestDiffRandom -count=1
package engine

import (
	"fmt"
	"math/rand"
	"os"
	"sort"
	"strings"
	"testing"

	"github.com/mk6i/mkdb/storage"
)

// ---- reference (written from the property text) ----

type rcol struct{ name, ty string }
type rtable struct {
	name string
	cols []rcol
	rows [][]interface{}
}
type rfield struct{ tid, col, ty string }

type operand struct {
	isCol      bool
	qual, name string
	lit        interface{}
}

func (o operand) sql() string {
	if o.isCol {
		if o.qual != "" {
			return o.qual + "." + o.name
		}
		return o.name
	}
	switch x := o.lit.(type) {
	case int64:
		return fmt.Sprint(x)
	case string:
		return "'" + x + "'"
	case bool:
		if x {
			return "TRUE"
		}
		return "FALSE"
	}
	panic("lit")
}

type rpred struct {
	l, r operand
	op   string
}

func (p rpred) sql() string { return p.l.sql() + " " + p.op + " " + p.r.sql() }

// cond: p0 op1 p1 op2 p2 ... (AND binds tighter than OR)
type rcond struct {
	preds []rpred
	ops   []string
}

func (c rcond) sql() string {
	s := c.preds[0].sql()
	for i, o := range c.ops {
		s += " " + o + " " + c.preds[i+1].sql()
	}
	return s
}

func resolve(fs []rfield, qual, name string) int {
	found := -1
	for i, f := range fs {
		if f.col == name && (qual == "" || f.tid == qual) {
			if found >= 0 {
				return -2
			}
			found = i
		}
	}
	return found
}

func opval(o operand, fs []rfield, row []interface{}) interface{} {
	if !o.isCol {
		return o.lit
	}
	i := resolve(fs, o.qual, o.name)
	if i < 0 {
		panic("reference: unresolved " + o.sql())
	}
	return row[i]
}

func cmpv(a, b interface{}) int {
	switch x := a.(type) {
	case int64:
		y := b.(int64)
		if x < y {
			return -1
		} else if x > y {
			return 1
		}
		return 0
	case string:
		return strings.Compare(x, b.(string))
	case bool:
		y := b.(bool)
		if x == y {
			return 0
		} else if !x {
			return -1
		}
		return 1
	}
	panic("cmpv")
}

func predTrue(p rpred, fs []rfield, row []interface{}) bool {
	a, b := opval(p.l, fs, row), opval(p.r, fs, row)
	switch p.op {
	case "=":
		return a == b // engine's documented choice: NULL compares as a value
	case "!=":
		return a != b
	}
	if a == nil || b == nil {
		return false
	}
	c := cmpv(a, b)
	switch p.op {
	case "<":
		return c < 0
	case "<=":
		return c <= 0
	case ">":
		return c > 0
	case ">=":
		return c >= 0
	}
	panic("op")
}

func condTrue(c rcond, fs []rfield, row []interface{}) bool {
	// OR of AND-runs
	acc := false
	cur := predTrue(c.preds[0], fs, row)
	for i, o := range c.ops {
		v := predTrue(c.preds[i+1], fs, row)
		if o == "AND" {
			cur = cur && v
		} else {
			acc = acc || cur
			cur = v
		}
	}
	return acc || cur
}

type rjoin struct {
	tbl   *rtable
	alias string
	jt    string // "", JOIN, INNER JOIN, LEFT JOIN, RIGHT JOIN
	on    rcond
}

func tid(j rjoin) string {
	if j.alias != "" {
		return j.alias
	}
	return j.tbl.name
}

func fromRef(js []rjoin) ([][]interface{}, []rfield) {
	var rows [][]interface{}
	var fs []rfield
	for i, j := range js {
		var rf []rfield
		for _, c := range j.tbl.cols {
			rf = append(rf, rfield{tid(j), c.name, c.ty})
		}
		if i == 0 {
			rows = append(rows, j.tbl.rows...)
			fs = rf
			continue
		}
		nfs := append(append([]rfield{}, fs...), rf...)
		var out [][]interface{}
		// (the multiset is the relational definition; the ORDER of the list follows the nested loop so that
		// the known order-dependent running average can be told apart from new defects)
		if j.jt == "RIGHT JOIN" {
			for _, r := range j.tbl.rows {
				n := 0
				for _, l := range rows {
					m := append(append([]interface{}{}, l...), r...)
					if condTrue(j.on, nfs, m) {
						out = append(out, m)
						n++
					}
				}
				if n == 0 {
					out = append(out, append(make([]interface{}, len(fs)), r...))
				}
			}
		} else {
			for _, l := range rows {
				n := 0
				for _, r := range j.tbl.rows {
					m := append(append([]interface{}{}, l...), r...)
					if condTrue(j.on, nfs, m) {
						out = append(out, m)
						n++
					}
				}
				if n == 0 && j.jt == "LEFT JOIN" {
					out = append(out, append(append([]interface{}{}, l...), make([]interface{}, len(rf))...))
				}
			}
		}
		rows, fs = out, nfs
	}
	return rows, fs
}

type ritem struct {
	kind  string // col, pred, lit, countstar, count, avg
	col   operand
	pred  rpred
	alias string
}

func (it ritem) sql() string {
	var s string
	switch it.kind {
	case "col", "lit":
		s = it.col.sql()
	case "pred":
		s = it.pred.sql()
	case "countstar":
		s = "count(*)"
	case "count":
		s = "count(" + it.col.sql() + ")"
	case "avg":
		s = "avg(" + it.col.sql() + ")"
	}
	if it.alias != "" {
		s += " AS " + it.alias
	}
	return s
}

func (it ritem) outName() string {
	if it.alias != "" {
		return it.alias
	}
	switch it.kind {
	case "col":
		return it.col.name
	case "countstar":
		return "count(*)"
	case "count":
		return "count(" + it.col.sql() + ")"
	case "avg":
		return "avg(" + it.col.sql() + ")"
	}
	return "?"
}

type rkey struct {
	pos  int
	text string
	desc bool
}

type rquery struct {
	star    bool
	items   []ritem
	from    []rjoin
	where   *rcond
	groupBy []operand // references as written
	gpos    []int     // select-list positions they designate
	order   []rkey
	lim     int
	off     int
	hasLim  bool
	hasOff  bool
	limFirst bool
}

func (q rquery) sql() string {
	s := "SELECT "
	if q.star {
		s += "*"
	} else {
		var it []string
		for _, i := range q.items {
			it = append(it, i.sql())
		}
		s += strings.Join(it, ", ")
	}
	s += " FROM "
	for i, j := range q.from {
		if i > 0 {
			s += " " + j.jt + " "
		}
		s += j.tbl.name
		if j.alias != "" {
			s += " " + j.alias
		}
		if i > 0 {
			s += " ON " + j.on.sql()
		}
	}
	if q.where != nil {
		s += " WHERE " + q.where.sql()
	}
	if len(q.groupBy) > 0 {
		var g []string
		for _, o := range q.groupBy {
			g = append(g, o.sql())
		}
		s += " GROUP BY " + strings.Join(g, ", ")
	}
	if len(q.order) > 0 {
		var k []string
		for _, o := range q.order {
			t := o.text
			if o.desc {
				t += " DESC"
			}
			k = append(k, t)
		}
		s += " ORDER BY " + strings.Join(k, ", ")
	}
	l, o := "", ""
	if q.hasLim {
		l = fmt.Sprintf(" LIMIT %d", q.lim)
	}
	if q.hasOff {
		o = fmt.Sprintf(" OFFSET %d", q.off)
	}
	if q.limFirst {
		s += l + o
	} else {
		s += o + l
	}
	return s
}

func (q rquery) isAgg() bool {
	if len(q.groupBy) > 0 {
		return true
	}
	for _, i := range q.items {
		if i.kind == "countstar" || i.kind == "count" || i.kind == "avg" {
			return true
		}
	}
	return false
}

func roundDivRef(sum int64, n int64) int64 {
	// values are small here
	neg := sum < 0
	if neg {
		sum = -sum
	}
	q, r := sum/n, sum%n
	if 2*r >= n {
		q++
	}
	if neg {
		return -q
	}
	return q
}

func itemVal(it ritem, fs []rfield, row []interface{}) interface{} {
	switch it.kind {
	case "col", "lit":
		return opval(it.col, fs, row)
	case "pred":
		return predTrue(it.pred, fs, row)
	}
	panic("itemVal")
}

// meaning before ORDER BY / OFFSET / LIMIT; avgAlt: the same rows with the running (known finding) average
func (q rquery) meaning() (rows [][]interface{}, alt [][]interface{}) {
	src, fs := fromRef(q.from)
	if q.where != nil {
		var f [][]interface{}
		for _, r := range src {
			if condTrue(*q.where, fs, r) {
				f = append(f, r)
			}
		}
		src = f
	}
	if q.star {
		return src, src
	}
	if !q.isAgg() {
		for _, r := range src {
			var o []interface{}
			for _, it := range q.items {
				o = append(o, itemVal(it, fs, r))
			}
			rows = append(rows, o)
		}
		return rows, rows
	}
	type grp struct {
		key  []interface{}
		rows [][]interface{}
	}
	var groups []*grp
	gidx := map[string]*grp{}
	if len(q.groupBy) == 0 {
		groups = []*grp{{rows: src}}
	} else {
		for _, r := range src {
			var k []interface{}
			for _, p := range q.gpos {
				k = append(k, itemVal(q.items[p], fs, r))
			}
			ks := fmt.Sprintf("%#v", k)
			g := gidx[ks]
			if g == nil {
				g = &grp{key: k}
				groups = append(groups, g)
				gidx[ks] = g
			}
			g.rows = append(g.rows, r)
		}
	}
	for _, g := range groups {
		var o, oa []interface{}
		for _, it := range q.items {
			switch it.kind {
			case "countstar":
				o, oa = append(o, int64(len(g.rows))), append(oa, int64(len(g.rows)))
			case "count":
				n := int64(0)
				for _, r := range g.rows {
					if opval(it.col, fs, r) != nil {
						n++
					}
				}
				o, oa = append(o, n), append(oa, n)
			case "avg":
				if len(g.rows) == 0 {
					o, oa = append(o, int64(0)), append(oa, int64(0))
					break
				}
				sum, run := int64(0), int64(0)
				for i, r := range g.rows {
					v := opval(it.col, fs, r).(int64)
					sum += v
					run = roundDivRef(run*int64(i)+v, int64(i+1))
				}
				o, oa = append(o, roundDivRef(sum, int64(len(g.rows)))), append(oa, run)
			default:
				if len(g.rows) == 0 {
					o, oa = append(o, itemVal(it, nil, nil)), append(oa, itemVal(it, nil, nil))
				} else {
					v := itemVal(it, fs, g.rows[0])
					o, oa = append(o, v), append(oa, v)
				}
			}
		}
		rows, alt = append(rows, o), append(alt, oa)
	}
	return
}

func rowLessRef(keys []rkey, a, b []interface{}) bool {
	for _, k := range keys {
		x, y := a[k.pos], b[k.pos]
		if x == y {
			continue
		}
		var lt bool
		switch {
		case x == nil:
			lt = true
		case y == nil:
			lt = false
		default:
			lt = cmpv(x, y) < 0
		}
		if k.desc {
			return !lt
		}
		return lt
	}
	return false
}

func rs(r []interface{}) string { return fmt.Sprintf("%#v", r) }

func multiset(rows [][]interface{}) map[string]int {
	m := map[string]int{}
	for _, r := range rows {
		m[rs(r)]++
	}
	return m
}

func subMulti(a, b [][]interface{}) bool {
	ma, mb := multiset(a), multiset(b)
	for k, n := range ma {
		if mb[k] < n {
			return false
		}
	}
	return true
}

func cutRef(q rquery, rows [][]interface{}) [][]interface{} {
	if q.hasOff {
		if q.off >= len(rows) {
			rows = nil
		} else {
			rows = rows[q.off:]
		}
	}
	if q.hasLim && q.lim < len(rows) {
		rows = rows[:q.lim]
	}
	return rows
}

// check returns "" when got satisfies the meaning
func (q rquery) check(got [][]interface{}) string {
	want, alt := q.meaning()
	try := func(want [][]interface{}) string {
		if len(q.order) == 0 {
			if len(q.from) == 1 && !q.isAgg() {
				w := cutRef(q, want)
				if len(w) != len(got) {
					return fmt.Sprintf("length %d, want %d", len(got), len(w))
				}
				for i := range w {
					if rs(w[i]) != rs(got[i]) {
						return fmt.Sprintf("row %d is %v, want %v (insertion order)", i, got[i], w[i])
					}
				}
				return ""
			}
			w := cutRef(q, want)
			if len(w) != len(got) {
				return fmt.Sprintf("length %d, want %d", len(got), len(w))
			}
			if !subMulti(got, want) {
				return "not a sub-multiset of the meaning"
			}
			return ""
		}
		s := append([][]interface{}{}, want...)
		sort.SliceStable(s, func(i, j int) bool { return rowLessRef(q.order, s[i], s[j]) })
		w := cutRef(q, s)
		if len(w) != len(got) {
			return fmt.Sprintf("length %d, want %d", len(got), len(w))
		}
		for i := range w {
			for _, k := range q.order {
				if w[i][k.pos] != got[i][k.pos] {
					return fmt.Sprintf("row %d has sort key %v, want %v", i, got[i][k.pos], w[i][k.pos])
				}
			}
		}
		if !subMulti(got, want) {
			return "not a sub-multiset of the meaning"
		}
		return ""
	}
	r := try(want)
	if r != "" && try(alt) == "" {
		return "" // the known running-average finding
	}
	if r != "" {
		r += fmt.Sprintf("\n   want(before order/cut)=%v\n   got=%v", want, got)
	}
	return r
}

// ---- generator ----

var dwords = []string{"ant", "bee", "cow", "cow", "dog", "Ant", "", "zebra", "b e", "cow2", "a", "B"}

func gval(r *rand.Rand, ty string, nullp int) interface{} {
	if nullp > 0 && r.Intn(nullp) == 0 {
		return nil
	}
	switch ty {
	case "int":
		return []int64{-3, 0, 1, 2, 2, 3, 7, 11, -1}[r.Intn(9)]
	case "bigint":
		return []int64{0, 5, 5, 11, 1, 4294967296, -9000000000, 2}[r.Intn(8)]
	case "boolean":
		return r.Intn(2) == 0
	}
	return dwords[r.Intn(len(dwords))]
}

func glit(r *rand.Rand, ty string) interface{} {
	v := gval(r, ty, 0)
	if n, ok := v.(int64); ok && n < 0 {
		v = -n
	}
	return v
}

func sqlType(ty string) string {
	if ty == "varchar" {
		return "varchar(255)"
	}
	return ty
}

func compat(a, b string) bool {
	ii := func(t string) bool { return t == "int" || t == "bigint" }
	return a == b || (ii(a) && ii(b))
}

// gpred: well-typed predicate over the fields; unqualified names only when unique
func gpred(r *rand.Rand, fs []rfield) rpred {
	ref := func(i int) operand {
		f := fs[i]
		if resolve(fs, "", f.col) >= 0 && r.Intn(2) == 0 {
			return operand{isCol: true, name: f.col}
		}
		return operand{isCol: true, qual: f.tid, name: f.col}
	}
	// qualified references are only usable when (tid,col) is unique - it is, tables have distinct ids
	i := r.Intn(len(fs))
	ops := []string{"=", "!=", "<", "<=", ">", ">="}
	if fs[i].ty == "boolean" {
		ops = ops[:2]
	}
	p := rpred{l: ref(i), op: ops[r.Intn(len(ops))]}
	if r.Intn(3) == 0 {
		var c []int
		for j, f := range fs {
			if j != i && compat(f.ty, fs[i].ty) {
				c = append(c, j)
			}
		}
		if len(c) > 0 {
			p.r = ref(c[r.Intn(len(c))])
		}
	}
	if !p.r.isCol {
		p.r = operand{lit: glit(r, fs[i].ty)}
	}
	if r.Intn(6) == 0 {
		p.l, p.r = p.r, p.l
	}
	return p
}

func gcond(r *rand.Rand, fs []rfield, max int) rcond {
	n := 1 + r.Intn(max)
	c := rcond{preds: []rpred{gpred(r, fs)}}
	for i := 1; i < n; i++ {
		c.ops = append(c.ops, []string{"AND", "OR"}[r.Intn(2)])
		c.preds = append(c.preds, gpred(r, fs))
	}
	return c
}

func fieldsOfJoins(js []rjoin) []rfield {
	var fs []rfield
	for _, j := range js {
		for _, c := range j.tbl.cols {
			fs = append(fs, rfield{tid(j), c.name, c.ty})
		}
	}
	return fs
}

func gquery(r *rand.Rand, tables []*rtable) rquery {
	q := rquery{}
	nj := []int{0, 0, 0, 1, 1, 2, 3}[r.Intn(7)]
	used := map[string]bool{}
	for i := 0; i <= nj; i++ {
		t := tables[r.Intn(len(tables))]
		j := rjoin{tbl: t}
		if used[t.name] || r.Intn(3) == 0 {
			j.alias = fmt.Sprintf("%c%d", 'p'+i, i)
		}
		used[t.name] = true
		if i > 0 {
			j.jt = []string{"JOIN", "INNER JOIN", "LEFT JOIN", "RIGHT JOIN", "LEFT JOIN"}[r.Intn(5)]
			fs := fieldsOfJoins(append(append([]rjoin{}, q.from...), j))
			j.on = gcond(r, fs, 3)
		}
		q.from = append(q.from, j)
	}
	fs := fieldsOfJoins(q.from)
	if r.Intn(2) == 0 {
		c := gcond(r, fs, 7)
		q.where = &c
	}
	ref := func(i int) operand {
		f := fs[i]
		if resolve(fs, "", f.col) >= 0 && r.Intn(2) == 0 {
			return operand{isCol: true, name: f.col}
		}
		return operand{isCol: true, qual: f.tid, name: f.col}
	}
	agg := r.Intn(3) == 0
	if !agg && r.Intn(5) == 0 {
		q.star = true
	} else if !agg {
		for k, n := 0, 1+r.Intn(5); k < n; k++ {
			var it ritem
			switch r.Intn(6) {
			case 0:
				it = ritem{kind: "pred", pred: gpred(r, fs)}
			case 1:
				it = ritem{kind: "lit", col: operand{lit: glit(r, "int")}}
			default:
				it = ritem{kind: "col", col: ref(r.Intn(len(fs)))}
			}
			if r.Intn(3) == 0 {
				it.alias = fmt.Sprintf("x%d", k)
			}
			q.items = append(q.items, it)
		}
	} else {
		// group columns: distinct fields
		ng := r.Intn(4)
		perm := r.Perm(len(fs))
		seenName := map[string]bool{}
		for _, fi := range perm {
			if len(q.groupBy) >= ng {
				break
			}
			f := fs[fi]
			if seenName[f.col] {
				continue // keep GROUP BY references unambiguous among select-list names
			}
			seenName[f.col] = true
			it := ritem{kind: "col", col: operand{isCol: true, qual: f.tid, name: f.col}}
			var g operand
			switch r.Intn(3) {
			case 0:
				g = it.col
			case 1:
				if resolve(fs, "", f.col) >= 0 {
					it.col.qual = ""
				}
				g = it.col
			default:
				it.alias = fmt.Sprintf("g%d", len(q.groupBy))
				g = operand{isCol: true, name: it.alias}
			}
			q.items = append(q.items, it)
			q.groupBy = append(q.groupBy, g)
		}
		na := 1 + r.Intn(3)
		if len(q.groupBy) > 0 && r.Intn(4) == 0 {
			na = 0
		}
		_, ffs := fromRef(q.from)
		_ = ffs
		for k := 0; k < na; k++ {
			switch r.Intn(3) {
			case 0:
				q.items = append(q.items, ritem{kind: "countstar"})
			case 1:
				q.items = append(q.items, ritem{kind: "count", col: ref(r.Intn(len(fs)))})
			default:
				// avg over an integer column without NULL among the rows that reach it
				var cand []int
				src, _ := fromRef(q.from)
				for i, f := range fs {
					if f.ty != "int" && f.ty != "bigint" {
						continue
					}
					ok := true
					for _, row := range src {
						if row[i] == nil {
							ok = false
						}
					}
					if ok {
						cand = append(cand, i)
					}
				}
				if len(cand) == 0 {
					q.items = append(q.items, ritem{kind: "countstar"})
				} else {
					q.items = append(q.items, ritem{kind: "avg", col: ref(cand[r.Intn(len(cand))])})
				}
			}
			if r.Intn(4) == 0 {
				q.items[len(q.items)-1].alias = fmt.Sprintf("n%d", k)
			}
		}
		// shuffle the select list, keeping gpos
		order := r.Perm(len(q.items))
		items := make([]ritem, len(q.items))
		newpos := make([]int, len(q.items))
		for to, from := range order {
			items[to] = q.items[from]
			newpos[from] = to
		}
		q.items = items
		q.gpos = nil
		for i := range q.groupBy {
			q.gpos = append(q.gpos, newpos[i])
		}
	}
	// ORDER BY on output columns with a unique, known name
	if r.Intn(2) == 0 {
		var names []string
		if q.star {
			for _, f := range fs {
				names = append(names, f.col)
			}
		} else {
			for _, it := range q.items {
				names = append(names, it.outName())
			}
		}
		cnt := map[string]int{}
		for _, n := range names {
			cnt[n]++
		}
		for k, nk := 0, 1+r.Intn(3); k < nk; k++ {
			p := r.Intn(len(names))
			n := names[p]
			if n == "?" || strings.Contains(n, "(") {
				continue
			}
			text := n
			if cnt[n] > 1 {
				// qualified key: only for a non-aliased column reference / star
				if q.star {
					text = fs[p].tid + "." + n
				} else if q.items[p].alias == "" && q.items[p].kind == "col" && q.items[p].col.qual != "" {
					text = q.items[p].col.qual + "." + n
				} else {
					continue
				}
				// must be the first field carrying (tid, name) - it is unique by construction unless repeated
				dup := 0
				for i := range names {
					var t string
					if q.star {
						t = fs[i].tid + "." + fs[i].col
					} else if q.items[i].alias == "" && q.items[i].kind == "col" && q.items[i].col.qual != "" {
						t = q.items[i].col.qual + "." + q.items[i].col.name
					}
					if t == text {
						dup++
					}
				}
				if dup > 1 {
					continue
				}
			}
			q.order = append(q.order, rkey{pos: p, text: text, desc: r.Intn(2) == 0})
		}
	}
	if r.Intn(2) == 0 {
		q.hasLim, q.lim = r.Intn(2) == 0, r.Intn(8)
		q.hasOff, q.off = r.Intn(2) == 0, r.Intn(6)
		q.limFirst = r.Intn(2) == 0
	}
	return q
}

func TestDiffRandom(t *testing.T) {
	defer storage.ClearDataDir()
	seeds := 60
	if s := os.Getenv("DIFF_SEEDS"); s != "" {
		fmt.Sscan(s, &seeds)
	}
	fails := 0
	for seed := 1; seed <= seeds; seed++ {
		r := rand.New(rand.NewSource(int64(seed)))
		d := newProbeDB(t, fmt.Sprintf("diff%d", seed))
		var tables []*rtable
		for ti := 0; ti < 3; ti++ {
			tb := &rtable{name: fmt.Sprintf("t%d", ti+1)}
			all := []rcol{{"id", "int"}, {"a", "int"}, {"b", "varchar"}, {"c", "boolean"}, {"d", "bigint"}, {"k", "int"}}
			if ti == 2 {
				all = []rcol{{"k", "int"}, {"b", "varchar"}, {"id", "int"}}
			}
			tb.cols = all
			var defs []string
			for _, c := range tb.cols {
				defs = append(defs, c.name+" "+sqlType(c.ty))
			}
			d.must("CREATE TABLE " + tb.name + " (" + strings.Join(defs, ", ") + ")")
			nullp := []int{0, 5, 3}[r.Intn(3)]
			nrows := []int{0, 1, 3, 6, 9, 14, 25, 60}[r.Intn(8)]
			if ti > 0 {
				nrows = r.Intn(9)
			}
			nextID := int64(1)
			ins := func() {
				row := make([]interface{}, len(tb.cols))
				var names []string
				for i, c := range tb.cols {
					names = append(names, c.name)
					switch c.name {
					case "id":
						row[i] = nextID
					case "k":
						if nullp > 0 && r.Intn(nullp+2) == 0 {
							row[i] = nil
						} else {
							row[i] = int64(1 + r.Intn(4))
						}
					default:
						row[i] = gval(r, c.ty, nullp)
					}
				}
				nextID++
				d.insertRaw(tb.name, names, row...)
				tb.rows = append(tb.rows, row)
			}
			for i := 0; i < nrows; i++ {
				ins()
			}
			// a history: deletes, updates (in place), further inserts
			if r.Intn(2) == 0 && len(tb.rows) > 0 {
				for h := 0; h < 1+r.Intn(6); h++ {
					switch r.Intn(3) {
					case 0:
						if len(tb.rows) == 0 {
							break
						}
						i := r.Intn(len(tb.rows))
						idv := tb.rows[i][resolveCol(tb, "id")]
						d.must(fmt.Sprintf("DELETE FROM %s WHERE id = %d", tb.name, idv))
						tb.rows = append(tb.rows[:i:i], tb.rows[i+1:]...)
					case 1:
						if len(tb.rows) == 0 {
							break
						}
						i := r.Intn(len(tb.rows))
						idv := tb.rows[i][resolveCol(tb, "id")]
						bi := resolveCol(tb, "b")
						nv := strings.Repeat("w", r.Intn(40)) + dwords[r.Intn(len(dwords))]
						d.must(fmt.Sprintf("UPDATE %s SET b = '%s' WHERE id = %d", tb.name, nv, idv))
						nr := append([]interface{}{}, tb.rows[i]...)
						nr[bi] = nv
						tb.rows[i] = nr
					default:
						ins()
					}
				}
			}
			tables = append(tables, tb)
		}
		for qi := 0; qi < 150; qi++ {
			q := gquery(r, tables)
			prod := 1
			for _, j := range q.from {
				prod *= len(j.tbl.rows) + 1
			}
			if prod > 4000 {
				continue
			}
			text := q.sql()
			got, _, err := d.sel(text)
			if err != nil {
				fails++
				if fails < 40 {
					t.Errorf("seed %d: well-typed query refused: %s\n   %v", seed, text, err)
				}
				continue
			}
			if msg := q.check(got); msg != "" {
				fails++
				if fails < 40 {
					t.Errorf("seed %d: wrong result: %s\n   %s", seed, text, msg)
				}
			}
		}
		d.s.Close()
	}
}

func resolveCol(t *rtable, name string) int {
	for i, c := range t.cols {
		if c.name == name {
			return i
		}
	}
	return -1
}
