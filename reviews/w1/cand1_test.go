package engine

// Candidate 1 (C06): one table id used for two tables of a FROM clause.
//
// copy to: engine/cand1_test.go     run: go test ./engine -run TestCand1 -count=1
//
// C06: "Columns are addressable through the table's alias when it has one and through its name
// otherwise, including the same table joined to itself under two aliases, and an unqualified name
// that exists on both sides is rejected as ambiguous rather than resolved silently."
//
// When two tables of the FROM clause carry the same id (the same table twice without aliases, or one
// alias given to two tables) every qualified reference x.c names a column on BOTH sides.  The engine
// resolves it silently to the left-most table (Fields.LookupColIdxByID returns the first match), the
// columns of the second table cannot be addressed at all, and the ON condition compares the left
// table with itself: the join degenerates to a cross product and no error is reported.

import (
	"os"
	"strings"
	"testing"

	"github.com/mk6i/mkdb/sql"
	"github.com/mk6i/mkdb/storage"
)

func cand1Select(t *testing.T, s *Session, q string) ([]*storage.Row, []*storage.Field, error) {
	t.Helper()
	stmt, err := parseSQL(q)
	if err != nil {
		return nil, nil, err
	}
	return EvaluateSelect(stmt.(sql.Select), s.RelationService)
}

func TestCand1DuplicateTableIDResolvedSilently(t *testing.T) {
	defer storage.ClearDataDir()
	old := os.Stdout
	null, _ := os.OpenFile(os.DevNull, os.O_WRONLY, 0)
	os.Stdout = null
	defer func() { os.Stdout = old }()

	s := &Session{}
	for _, q := range []string{
		"CREATE DATABASE cand1", "USE cand1",
		"CREATE TABLE emp (id int, boss int)",
		"CREATE TABLE dept (id int, boss int)",
		"INSERT INTO emp VALUES (1, 9), (2, 1), (3, 1)",
		"INSERT INTO dept VALUES (7, 2), (8, 3)",
	} {
		if err := s.ExecQuery(q); err != nil {
			t.Fatalf("%s: %v", q, err)
		}
	}
	defer s.Close()

	for _, q := range []string{
		// "who is whose boss" written without aliases: emp.boss = emp.id is ambiguous on both sides
		"SELECT emp.id FROM emp JOIN emp ON emp.boss = emp.id",
		// one alias for two tables: x.boss / x.id exist on both sides
		"SELECT x.id FROM emp x JOIN dept x ON x.boss = x.id",
		"SELECT x.id FROM emp x LEFT JOIN dept x ON x.id = 7",
	} {
		rows, _, err := cand1Select(t, s, q)
		if err == nil {
			var got []string
			for _, r := range rows {
				got = append(got, strings.TrimSpace(r.String()))
			}
			t.Errorf("%s\n   a reference that names a column on both sides was resolved silently: %d rows %v, no error", q, len(rows), got)
		}
	}

	// the well-formed spellings keep working
	rows, _, err := cand1Select(t, s, "SELECT e.id, b.id FROM emp e JOIN emp b ON e.boss = b.id")
	if err != nil || len(rows) != 2 {
		t.Errorf("self-join under two aliases: %d rows, err %v; want 2 rows", len(rows), err)
	}
	rows, _, err = cand1Select(t, s, "SELECT emp.id, b.id FROM emp JOIN emp b ON emp.boss = b.id")
	if err != nil || len(rows) != 2 {
		t.Errorf("self-join, name and alias: %d rows, err %v; want 2 rows", len(rows), err)
	}
}
