package engine

// Candidate 2 (C06 / C07): an unqualified GROUP BY name that exists on both sides of a join is
// resolved silently.
//
// copy to: engine/cand2_test.go     run: go test ./engine -run TestCand2 -count=1
//
// C06: "... an unqualified name that exists on both sides is rejected as ambiguous rather than
// resolved silently."  In the select list, in ON and in WHERE the engine does reject such a name
// (ErrFieldAmbiguous).  In GROUP BY it does not: the name is matched against the select list only
// (DerivedColumn.Matches), so `GROUP BY a` silently means whichever of t.a / u.a was selected.
//
// NOTE: engine/select_test.go ("select aggregate with column qualifier: SELECT tbl2.year, count(*)
// FROM tbl1 JOIN tbl2 ... GROUP BY year", year being a column of both tables) pins this behaviour,
// so a repair cannot pass the unedited suite; this is a conflict between the property text and the
// upstream design that the specification settled in favour of the code without recording it
// (Spec/Query.lean `groupIdx`, generated queries "GROUP BY k" / "GROUP BY t1.k, a" in exec.go).

import (
	"errors"
	"os"
	"testing"

	"github.com/mk6i/mkdb/sql"
	"github.com/mk6i/mkdb/storage"
)

func TestCand2UnqualifiedGroupByNameOnBothSides(t *testing.T) {
	defer storage.ClearDataDir()
	old := os.Stdout
	null, _ := os.OpenFile(os.DevNull, os.O_WRONLY, 0)
	os.Stdout = null
	defer func() { os.Stdout = old }()

	s := &Session{}
	for _, q := range []string{
		"CREATE DATABASE cand2", "USE cand2",
		"CREATE TABLE t (k int, a int)",
		"CREATE TABLE u (k int, a int)",
		"INSERT INTO t VALUES (1, 10), (1, 10), (2, 20)",
		"INSERT INTO u VALUES (1, 7), (1, 8), (2, 7)",
	} {
		if err := s.ExecQuery(q); err != nil {
			t.Fatalf("%s: %v", q, err)
		}
	}
	defer s.Close()
	run := func(q string) ([]*storage.Row, error) {
		stmt, err := parseSQL(q)
		if err != nil {
			return nil, err
		}
		rows, _, err := EvaluateSelect(stmt.(sql.Select), s.RelationService)
		return rows, err
	}

	// the same name is refused everywhere else
	for _, q := range []string{
		"SELECT a FROM t JOIN u ON t.k = u.k",
		"SELECT t.k FROM t JOIN u ON t.k = u.k WHERE a = 7",
		"SELECT t.k FROM t JOIN u ON a = 7",
	} {
		if _, err := run(q); !errors.Is(err, storage.ErrFieldAmbiguous) {
			t.Errorf("%s: err = %v, want ErrFieldAmbiguous", q, err)
		}
	}
	// ... but not in GROUP BY: `a` is a column of t and of u
	for _, q := range []string{
		"SELECT u.a, count(*) FROM t JOIN u ON t.k = u.k GROUP BY a",
		"SELECT t.a, count(*) FROM t JOIN u ON t.k = u.k GROUP BY a",
		"SELECT u.a FROM t JOIN u ON t.k = u.k GROUP BY a",
	} {
		rows, err := run(q)
		if err == nil {
			t.Errorf("%s\n   the name a exists on both sides and was resolved silently (%d groups), no error", q, len(rows))
		}
	}
}
