//go:build verif

package engine

import (
	"fmt"
	"os"
	"testing"

	"github.com/mk6i/mkdb/storage"
)

func TestRevDump(t *testing.T) {
	dir := os.Getenv("REV_IMG")
	if dir == "" {
		t.Skip()
	}
	h := readHdr(dir + "/data/d/tbl")
	fmt.Printf("hdr lastKey=%d ptRoot=%d nextFree=%d nextLSN=%d fileSize=%d\n", h.lastKey, h.ptRoot, h.nextFree, h.nextLSN, fsize(dir+"/data/d/tbl"))
	raw, _ := os.ReadFile(dir + "/data/d/tbl")
	for off := 4096; off+4096 <= len(raw); off += 4096 {
		leaf := raw[off] == 1
		n, err, pm := storage.VerifDecodeNode(raw[off:off+4096], leaf)
		s := n.String()
		if len(s) > 150 {
			s = s[:150]
		}
		fmt.Printf("page %d err=%v pm=%q %s\n", off, err, pm, s)
	}
	recs, err, pm, size := storage.VerifWalParseFile(dir + "/data/d/wal")
	fmt.Printf("wal err=%v pm=%q size=%d n=%d\n", err, pm, size, len(recs))
	st := 0
	if len(recs) > 60 {
		st = len(recs) - 60
	}
	for _, r := range recs[st:] {
		s := r.String()
		if len(s) > 100 {
			s = s[:100]
		}
		fmt.Println(s)
	}
}
