//go:build verif

package engine

// Review fuzz: differential test of crash / recovery against a trivial oracle,
// in the regions the verification harness never generates (many tables, so that
// sys_pages has split; UPDATE/DELETE/CREATE probes after image recoveries; NULL
// values in cut statements; deep trees under log cuts and torn flushes).

import (
	"fmt"
	"io"
	"math/rand"
	"os"
	"path/filepath"
	"strings"
	"testing"

	"github.com/mk6i/mkdb/storage"
)

type orow struct {
	a    int64
	b    string
	bnil bool
}

func (r orow) String() string {
	if r.bnil {
		return fmt.Sprintf("(%d,NULL)", r.a)
	}
	return fmt.Sprintf("(%d,%q)", r.a, r.b)
}

type oracle map[string][]orow

func (o oracle) clone() oracle {
	c := oracle{}
	for k, v := range o {
		c[k] = append([]orow{}, v...)
	}
	return c
}

type fz struct {
	t      *testing.T
	rs     *storage.RelationService
	sess   *Session
	db     string
	tables []string
	or     oracle
	rng    *rand.Rand
	log    []string
}

func quiet() func() {
	old := os.Stdout
	null, _ := os.OpenFile(os.DevNull, os.O_WRONLY, 0)
	os.Stdout = null
	return func() { os.Stdout = old; null.Close() }
}

func (f *fz) open() {
	rs, err := storage.VerifOpenRelation(f.db, false, 0)
	if err != nil {
		f.t.Fatalf("open: %v\nhistory:\n%s", err, strings.Join(f.log, "\n"))
	}
	f.rs = rs
	f.sess = &Session{CurDB: f.db, RelationService: rs}
}

func (f *fz) exec(q string) error {
	f.log = append(f.log, q)
	return f.sess.ExecQuery(q)
}

func (f *fz) must(q string) {
	if err := f.exec(q); err != nil {
		f.t.Fatalf("statement refused: %s: %v\nhistory:\n%s", q, err, f.tail())
	}
}

func (f *fz) tail() string {
	l := f.log
	if len(l) > 60 {
		l = l[len(l)-60:]
	}
	return strings.Join(l, "\n")
}

func readTable(rs *storage.RelationService, tbl string) ([]orow, []uint32, error) {
	rows, _, err := rs.Fetch(tbl)
	if err != nil {
		return nil, nil, err
	}
	var out []orow
	var ids []uint32
	for _, r := range rows {
		o := orow{}
		if r.Vals[0] != nil {
			o.a = r.Vals[0].(int64)
		} else {
			o.a = -999999
		}
		if r.Vals[1] == nil {
			o.bnil = true
		} else {
			o.b = r.Vals[1].(string)
		}
		out = append(out, o)
		ids = append(ids, r.RowID)
	}
	return out, ids, nil
}

func sameRows(a, b []orow) bool {
	if len(a) != len(b) {
		return false
	}
	for i := range a {
		if a[i] != b[i] {
			return false
		}
	}
	return true
}

func (f *fz) check(what string) {
	for _, tbl := range f.tables {
		got, ids, err := readTable(f.rs, tbl)
		if err != nil {
			f.t.Fatalf("%s: table %s unreadable: %v\nhistory:\n%s", what, tbl, err, f.tail())
		}
		if !sameRows(got, f.or[tbl]) {
			f.t.Fatalf("%s: table %s differs\n got %v\nwant %v\nhistory:\n%s", what, tbl, got, f.or[tbl], f.tail())
		}
		for i := 1; i < len(ids); i++ {
			if ids[i] <= ids[i-1] {
				f.t.Fatalf("%s: table %s ids not ascending %v", what, tbl, ids)
			}
		}
		hdr := f.rs.VerifHeader()
		if len(ids) > 0 && ids[len(ids)-1] > hdr.LastKey {
			f.t.Fatalf("%s: counter %d behind id %d in table %s\nhistory:\n%s", what, hdr.LastKey, ids[len(ids)-1], tbl, f.tail())
		}
	}
}

func randStr(r *rand.Rand) string {
	n := r.Intn(12)
	if r.Intn(6) == 0 {
		n = 100 + r.Intn(280)
	}
	b := make([]byte, n)
	for i := range b {
		b[i] = byte('a' + r.Intn(26))
	}
	return string(b)
}

// genStmt returns a DML statement on tbl together with the row-prefix states it may leave
// (states[0] = before, states[len-1] = after), in the order the statement applies its rows.
func (f *fz) genStmt(tbl string) (string, [][]orow) {
	r := f.rng
	cur := f.or[tbl]
	switch x := r.Intn(10); {
	case x < 6:
		n := 1 + r.Intn(6)
		if r.Intn(8) == 0 {
			n = 10 + r.Intn(25)
		}
		if hugeInserts && r.Intn(10) == 0 {
			n = 300 + r.Intn(1200)
		}
		withNull := r.Intn(4) == 0
		var vs []string
		states := [][]orow{append([]orow{}, cur...)}
		acc := append([]orow{}, cur...)
		for i := 0; i < n; i++ {
			ro := orow{a: int64(r.Intn(40))}
			if withNull {
				ro.bnil = true
				vs = append(vs, fmt.Sprintf("(%d)", ro.a))
			} else {
				ro.b = randStr(r)
				vs = append(vs, fmt.Sprintf("(%d, '%s')", ro.a, ro.b))
			}
			acc = append(acc, ro)
			states = append(states, append([]orow{}, acc...))
		}
		cols := ""
		if withNull {
			cols = " (a)"
		} else if r.Intn(2) == 0 {
			cols = " (a, b)"
		}
		return "INSERT INTO " + tbl + cols + " VALUES " + strings.Join(vs, ", "), states
	case x < 8:
		k := int64(r.Intn(40))
		nb := randStr(r)
		all := r.Intn(5) == 0
		states := [][]orow{append([]orow{}, cur...)}
		acc := append([]orow{}, cur...)
		for i := range acc {
			if all || acc[i].a < k {
				acc[i].b = nb
				acc[i].bnil = false
				states = append(states, append([]orow{}, acc...))
			}
		}
		q := "UPDATE " + tbl + " SET b = '" + nb + "'"
		if !all {
			q += fmt.Sprintf(" WHERE a < %d", k)
		}
		return q, states
	default:
		k := int64(r.Intn(40))
		mod := r.Intn(3)
		sel := func(ro orow) bool {
			switch mod {
			case 0:
				return ro.a == k
			case 1:
				return ro.a < k/2
			}
			return ro.a > k+10
		}
		states := [][]orow{append([]orow{}, cur...)}
		acc := append([]orow{}, cur...)
		for {
			idx := -1
			for i := range acc {
				if sel(acc[i]) {
					idx = i
					break
				}
			}
			if idx < 0 {
				break
			}
			acc = append(append([]orow{}, acc[:idx]...), acc[idx+1:]...)
			states = append(states, append([]orow{}, acc...))
		}
		q := "DELETE FROM " + tbl + " WHERE "
		switch mod {
		case 0:
			q += fmt.Sprintf("a = %d", k)
		case 1:
			q += fmt.Sprintf("a < %d", k/2)
		default:
			q += fmt.Sprintf("a > %d", k+10)
		}
		return q, states
	}
}

func copyFileN(src, dst string, n int64) error {
	in, err := os.Open(src)
	if err != nil {
		return err
	}
	defer in.Close()
	out, err := os.Create(dst)
	if err != nil {
		return err
	}
	defer out.Close()
	if n >= 0 {
		_, err = io.CopyN(out, in, n)
		if err == io.EOF {
			err = nil
		}
		return err
	}
	_, err = io.Copy(out, in)
	return err
}

func fsize(p string) int64 {
	st, err := os.Stat(p)
	if err != nil {
		return 0
	}
	return st.Size()
}

// inImage runs fn in a fresh working directory holding data/<db>/{tbl,wal} built by mk.
func (f *fz) inImage(mk func(dir string), fn func()) {
	wd, _ := os.Getwd()
	dir, _ := os.MkdirTemp("", "revimg")
	defer os.RemoveAll(dir)
	os.MkdirAll(filepath.Join(dir, "data", f.db), 0755)
	mk(filepath.Join(dir, "data", f.db))
	os.Chdir(dir)
	defer os.Chdir(wd)
	fn()
}

// probeAndRecheck: on a recovered image whose tables equal `st`, run statements of every kind, then
// crash, recover again and compare.
func (f *fz) probeImage(what string, st oracle) {
	rs, err := storage.VerifOpenRelation(f.db, false, 0)
	if err != nil {
		f.t.Fatalf("%s: open after recovery: %v", what, err)
	}
	sub := &fz{t: f.t, rs: rs, sess: &Session{CurDB: f.db, RelationService: rs}, db: f.db, tables: append([]string{}, f.tables...), or: st.clone(), rng: f.rng, log: append(append([]string{}, f.log...), "-- "+what)}
	sub.check(what + " (after image recovery)")
	for i := 0; i < 4; i++ {
		tbl := sub.tables[sub.rng.Intn(len(sub.tables))]
		q, states := sub.genStmt(tbl)
		if err := sub.exec(q); err != nil {
			f.t.Fatalf("%s: probe refused: %s: %v\nhistory:\n%s", what, q, err, sub.tail())
		}
		sub.or[tbl] = states[len(states)-1]
		sub.check(what + " (after probe)")
	}
	if sub.rng.Intn(2) == 0 {
		name := fmt.Sprintf("p%d", sub.rng.Intn(1000000))
		if err := sub.exec("CREATE TABLE " + name + " (a int, b varchar(255))"); err != nil {
			f.t.Fatalf("%s: probe create refused: %v", what, err)
		}
		sub.tables = append(sub.tables, name)
		sub.or[name] = nil
		sub.must("INSERT INTO " + name + " VALUES (1, 'x')")
		sub.or[name] = []orow{{a: 1, b: "x"}}
	}
	rs.VerifAbandon()
	if err := storage.InitStorage(); err != nil {
		f.t.Fatalf("%s: second recovery failed: %v\nhistory:\n%s", what, err, sub.tail())
	}
	sub.open()
	sub.check(what + " (after second recovery)")
	sub.rs.VerifAbandon()
}

func runFuzz(t *testing.T, seed int64, steps int, maxTables int, hot int) {
	defer quiet()()
	wd, _ := os.Getwd()
	dir := t.TempDir()
	os.Chdir(dir)
	defer os.Chdir(wd)
	f := &fz{t: t, db: "d", or: oracle{}, rng: rand.New(rand.NewSource(seed))}
	if err := storage.CreateDB(f.db); err != nil {
		t.Fatal(err)
	}
	f.open()
	mk := func() {
		name := fmt.Sprintf("t%d", len(f.tables))
		f.must("CREATE TABLE " + name + " (a int, b varchar(255))")
		f.tables = append(f.tables, name)
		f.or[name] = nil
	}
	mk()
	for s := 0; s < steps; s++ {
		r := f.rng
		if len(f.tables) < maxTables && r.Intn(6) == 0 {
			mk()
			continue
		}
		// a few hot tables get most statements (root moves, deeper trees)
		var tbl string
		if r.Intn(3) > 0 {
			tbl = f.tables[r.Intn(min(hot, len(f.tables)))]
			if r.Intn(2) == 0 {
				tbl = f.tables[len(f.tables)-1-r.Intn(min(hot, len(f.tables)))]
			}
		} else {
			tbl = f.tables[r.Intn(len(f.tables))]
		}
		q, states := f.genStmt(tbl)
		walPath := filepath.Join("data", f.db, "wal")
		tblPath := filepath.Join("data", f.db, "tbl")
		l0 := fsize(walPath)
		before := f.or.clone()
		f.must(q)
		f.or[tbl] = states[len(states)-1]
		l1 := fsize(walPath)
		// C03: log cut inside this statement (the data file is not written by a statement)
		if r.Intn(5) == 0 && l1 > l0 {
			for k := 0; k < 3; k++ {
				cut := l0 + r.Int63n(l1-l0+1)
				src, _ := filepath.Abs(filepath.Join("data", f.db))
				var got []orow
				f.inImage(func(d string) {
					copyFileN(filepath.Join(src, "tbl"), filepath.Join(d, "tbl"), -1)
					copyFileN(filepath.Join(src, "wal"), filepath.Join(d, "wal"), cut)
				}, func() {
					what := fmt.Sprintf("log cut at %d of [%d,%d] in %q", cut, l0, l1, q)
					if err := storage.InitStorage(); err != nil {
						t.Fatalf("%s: recovery failed: %v\nhistory:\n%s", what, err, f.tail())
					}
					rs, err := storage.VerifOpenRelation(f.db, false, 0)
					if err != nil {
						t.Fatalf("%s: open: %v", what, err)
					}
					got, _, err = readTable(rs, tbl)
					if err != nil {
						t.Fatalf("%s: table unreadable: %v\nhistory:\n%s", what, err, f.tail())
					}
					rs.VerifAbandon()
					ok := false
					for _, st := range states {
						if sameRows(st, got) {
							ok = true
						}
					}
					if !ok {
						t.Fatalf("%s: not a row prefix: got %v\nbefore %v\nhistory:\n%s", what, got, before[tbl], f.tail())
					}
					stats["logcuts"]++
					if !sameRows(got, states[0]) && !sameRows(got, states[len(states)-1]) {
						stats["logcuts-proper-prefix"]++
					}
					st := before.clone()
					st[tbl] = got
					f.probeImage(what, st)
				})
			}
		}
		switch x := r.Intn(100); {
		case x < 12:
			// C04: torn flush synthesised from the file before and after the flush
			pre, _ := os.MkdirTemp("", "revpre")
			copyFileN(tblPath, filepath.Join(pre, "tbl"), -1)
			copyFileN(walPath, filepath.Join(pre, "wal"), -1)
			preHdr := readHdr(filepath.Join(pre, "tbl"))
			if err := f.rs.VerifFlush(); err != nil {
				t.Fatal(err)
			}
			f.log = append(f.log, "-- flush")
			postHdr := readHdr(tblPath)
			alloc0 := preHdr.nextFree == postHdr.nextFree
			if alloc0 {
				changed := changedPages(filepath.Join(pre, "tbl"), tblPath)
				for k := 0; k < 4 && len(changed) > 0; k++ {
					var sub []int64
					for _, o := range changed {
						if r.Intn(2) == 0 {
							sub = append(sub, o)
						}
					}
					src, _ := filepath.Abs(tblPath)
					f.inImage(func(d string) {
						copyFileN(filepath.Join(pre, "tbl"), filepath.Join(d, "tbl"), -1)
						copyFileN(filepath.Join(pre, "wal"), filepath.Join(d, "wal"), -1)
						patchPages(src, filepath.Join(d, "tbl"), sub)
					}, func() {
						what := fmt.Sprintf("torn flush alloc0 pages %v of %v", sub, changed)
						if err := storage.InitStorage(); err != nil {
							t.Fatalf("%s: recovery failed: %v\nhistory:\n%s", what, err, f.tail())
						}
						stats["torn-alloc0"]++
						f.probeImage(what, f.or)
					})
				}
			}
			os.RemoveAll(pre)
		case x < 16:
			if err := f.rs.Close(); err != nil {
				t.Fatal(err)
			}
			f.log = append(f.log, "-- close/reopen")
			f.open()
		case x < 30:
			f.rs.VerifAbandon()
			f.log = append(f.log, "-- crash")
			if err := storage.InitStorage(); err != nil {
				t.Fatalf("recovery failed: %v\nhistory:\n%s", err, f.tail())
			}
			if r.Intn(2) == 0 {
				if err := storage.InitStorage(); err != nil {
					t.Fatalf("second recovery failed: %v", err)
				}
			}
			f.open()
			f.check("after crash+recovery")
			stats["crashes"]++
			if f.rs.VerifHeader().PageTableRoot != 4096 {
				stats["crashes-with-moved-sys_pages-root"]++
			}
		}
	}
	f.check("end")
	if n := len(f.or[f.tables[0]]); n > stats["max-rows-in-t0"] {
		stats["max-rows-in-t0"] = n
	}
	if pg := int(f.rs.VerifHeader().NextFree / 4096); pg > stats["max-pages"] {
		stats["max-pages"] = pg
	}
	f.rs.VerifAbandon()
}

var stats = map[string]int{}
var hugeInserts = false

type hdr struct {
	lastKey  uint32
	ptRoot   uint64
	nextFree uint64
	nextLSN  uint64
}

func readHdr(path string) hdr {
	b := make([]byte, 28)
	fl, err := os.Open(path)
	if err != nil {
		return hdr{}
	}
	defer fl.Close()
	io.ReadFull(fl, b)
	le := func(b []byte) uint64 {
		var v uint64
		for i := range b {
			v |= uint64(b[i]) << (8 * uint(i))
		}
		return v
	}
	return hdr{uint32(le(b[0:4])), le(b[4:12]), le(b[12:20]), le(b[20:28])}
}

func changedPages(pre, post string) []int64 {
	a, _ := os.ReadFile(pre)
	b, _ := os.ReadFile(post)
	var out []int64
	for off := 4096; off+4096 <= len(b); off += 4096 {
		if off+4096 > len(a) || string(a[off:off+4096]) != string(b[off:off+4096]) {
			out = append(out, int64(off))
		}
	}
	return out
}

func patchPages(src, dst string, offs []int64) {
	s, _ := os.Open(src)
	defer s.Close()
	d, _ := os.OpenFile(dst, os.O_RDWR, 0644)
	defer d.Close()
	buf := make([]byte, 4096)
	for _, o := range offs {
		if _, err := s.ReadAt(buf, o); err == nil {
			d.WriteAt(buf, o)
		}
	}
}

func min(a, b int) int {
	if a < b {
		return a
	}
	return b
}

func TestRevFuzzManyTables(t *testing.T) {
	for seed := int64(1); seed <= 12; seed++ {
		seed := seed
		t.Run(fmt.Sprint(seed), func(t *testing.T) { runFuzz(t, seed, 250, 16, 3) })
	}
	t.Logf("stats %v", stats)
}

func TestRevFuzzHuge(t *testing.T) {
	hugeInserts = true
	defer func() { hugeInserts = false }()
	for seed := int64(201); seed <= 203; seed++ {
		seed := seed
		t.Run(fmt.Sprint(seed), func(t *testing.T) { runFuzz(t, seed, 120, 1, 1) })
	}
	t.Logf("stats %v", stats)
}

func TestRevFuzzDeep(t *testing.T) {
	for seed := int64(101); seed <= 104; seed++ {
		seed := seed
		t.Run(fmt.Sprint(seed), func(t *testing.T) { runFuzz(t, seed, 700, 2, 1) })
	}
	t.Logf("stats %v", stats)
}

// ---- real process death: a child process runs a session with the real flush timer and is killed
// with SIGKILL at a random moment; the parent recovers and compares.

func TestRevKillChild(t *testing.T) {
	if os.Getenv("REV_CHILD") == "2" {
		os.Chdir(os.Getenv("REV_DIR"))
		null, _ := os.OpenFile(os.DevNull, os.O_WRONLY, 0)
		os.Stdout = null
		if err := storage.InitStorage(); err != nil {
			fmt.Fprintln(os.Stderr, "INITERR", err)
			os.Exit(3)
		}
		os.Exit(0)
	}
	if os.Getenv("REV_CHILD") != "1" {
		t.Skip("child only")
	}
	os.Chdir(os.Getenv("REV_DIR"))
	null, _ := os.OpenFile(os.DevNull, os.O_WRONLY, 0)
	os.Stdout = null
	if err := storage.InitStorage(); err != nil {
		fmt.Fprintln(os.Stderr, "INITERR", err)
		os.Exit(3)
	}
	sess := &Session{}
	if err := sess.ExecQuery("USE d"); err != nil {
		fmt.Fprintln(os.Stderr, "USEERR", err)
		os.Exit(3)
	}
	b, _ := os.ReadFile(os.Getenv("REV_STMTS"))
	for i, q := range strings.Split(strings.TrimSpace(string(b)), "\n") {
		if err := sess.ExecQuery(q); err != nil {
			fmt.Fprintf(os.Stderr, "ERR %d %v\n", i, err)
			os.Exit(4)
		}
		fmt.Fprintf(os.Stderr, "ACK %d\n", i)
	}
	fmt.Fprintln(os.Stderr, "DONE")
	// no Close: the parent kills us; keep the timer running for a while
	select {}
}

func newRng(seed int64) *rand.Rand { return rand.New(rand.NewSource(seed)) }
