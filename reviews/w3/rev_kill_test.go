//go:build verif

package engine

import (
	"bufio"
	"fmt"
	"math/rand"
	"os"
	"os/exec"
	"path/filepath"
	"strings"
	"syscall"
	"testing"
	"time"

	"github.com/mk6i/mkdb/storage"
)

// tornFlushOnDisk: some page in the data file carries an LSN the header does not know of - a page
// flush wrote it and died before its header write.
func tornFlushOnDisk(tbl string) bool {
	h := readHdr(tbl)
	raw, _ := os.ReadFile(tbl)
	for off := 4096; off+4096 <= len(raw); off += 4096 {
		var lsn uint64
		for i := 0; i < 8; i++ {
			lsn |= uint64(raw[off+9+i]) << (8 * uint(i))
		}
		if lsn >= h.nextLSN {
			return true
		}
	}
	return uint64(len(raw)) > h.nextFree
}

func TestRevKill(t *testing.T)        { runKill(t, true, 77) }
func TestRevKillNoAlloc(t *testing.T) { runKill(t, false, 78) }

func runKill(t *testing.T, inserts bool, seed int64) {
	defer quiet()()
	wd, _ := os.Getwd()
	dir := t.TempDir()
	os.Chdir(dir)
	defer os.Chdir(wd)
	rng := rand.New(rand.NewSource(seed))
	f := &fz{t: t, db: "d", or: oracle{}, rng: rng}
	if err := storage.CreateDB("d"); err != nil {
		t.Fatal(err)
	}
	f.open()
	for i := 0; i < 3; i++ {
		name := fmt.Sprintf("t%d", i)
		f.must("CREATE TABLE " + name + " (a int, b varchar(255))")
		f.tables = append(f.tables, name)
	}
	if !inserts {
		// populate, then shut down cleanly: from here on no statement allocates a page
		for i := 0; i < 225; i++ {
			tbl := f.tables[i%3]
			var vs []string
			for k := 0; k < 20; k++ {
				ro := orow{a: int64(rng.Intn(40)), b: randStr(rng)}
				vs = append(vs, fmt.Sprintf("(%d, '%s')", ro.a, ro.b))
				f.or[tbl] = append(f.or[tbl], ro)
			}
			f.must("INSERT INTO " + tbl + " VALUES " + strings.Join(vs, ", "))
		}
	}
	f.rs.Close()
	exe, _ := os.Executable()
	torn, tornSkipped := 0, 0
	rounds := 150
	if os.Getenv("REV_ROUNDS") != "" {
		fmt.Sscan(os.Getenv("REV_ROUNDS"), &rounds)
	}
	inflight, midstmt := 0, 0
	for round := 0; round < rounds; round++ {
		// generate a statement list with its chain of expected states
		type step struct {
			q      string
			tbl    string
			states [][]orow
		}
		var steps []step
		sim := f.or.clone()
		save := f.or
		f.or = sim
		for i := 0; i < 400; i++ {
			tbl := f.tables[rng.Intn(len(f.tables))]
			q, states := f.genStmt(tbl)
			for !inserts && (strings.HasPrefix(q, "INSERT") || (strings.HasPrefix(q, "DELETE") && !(strings.Contains(q, " a = ") && rng.Intn(3) == 0))) {
				q, states = f.genStmt(tbl)
			}
			steps = append(steps, step{q, tbl, states})
			sim[tbl] = states[len(states)-1]
		}
		f.or = save
		var qs []string
		for _, s := range steps {
			qs = append(qs, s.q)
		}
		stf := filepath.Join(dir, "stmts.txt")
		os.WriteFile(stf, []byte(strings.Join(qs, "\n")), 0644)
		cmd := exec.Command(exe, "-test.run=TestRevKillChild$")
		cmd.Env = append(os.Environ(), "REV_CHILD=1", "REV_DIR="+dir, "REV_STMTS="+stf)
		pipe, _ := cmd.StderrPipe()
		if err := cmd.Start(); err != nil {
			t.Fatal(err)
		}
		acked := -1
		done := make(chan bool)
		var lines []string
		go func() {
			sc := bufio.NewScanner(pipe)
			for sc.Scan() {
				l := sc.Text()
				lines = append(lines, l)
				var i int
				if n, _ := fmt.Sscanf(l, "ACK %d", &i); n == 1 {
					acked = i
				}
			}
			done <- true
		}()
		time.Sleep(time.Duration(20+rng.Intn(400)) * time.Millisecond)
		cmd.Process.Signal(syscall.SIGKILL)
		<-done
		cmd.Wait()
		for _, l := range lines {
			if strings.HasPrefix(l, "ERR") || strings.HasPrefix(l, "INITERR") || strings.HasPrefix(l, "USEERR") || strings.HasPrefix(l, "panic") {
				t.Fatalf("round %d: child said %q (all: %v)", round, l, lines[max(0, len(lines)-5):])
			}
		}
		// expected: every acked statement applied; statement acked+1 a row prefix
		exp := f.or.clone()
		for i := 0; i <= acked; i++ {
			exp[steps[i].tbl] = steps[i].states[len(steps[i].states)-1]
		}
		if tornFlushOnDisk(filepath.Join(dir, "data", "d", "tbl")) {
			torn++
			if inserts {
				// possibly a flush with freshly allocated pages: the class of the known finding. Start afresh.
				tornSkipped++
				os.RemoveAll(filepath.Join(dir, "data"))
				storage.CreateDB("d")
				f.or = oracle{}
				f.open()
				for _, name := range f.tables {
					f.must("CREATE TABLE " + name + " (a int, b varchar(255))")
				}
				f.rs.Close()
				continue
			}
		}
		// keep the crash image; recover in a child (a runaway recovery is a fatal stack overflow)
		keep := os.Getenv("REV_KEEP")
		if keep != "" {
			os.RemoveAll(keep)
			os.MkdirAll(filepath.Join(keep, "data", "d"), 0755)
			copyFileN(filepath.Join(dir, "data", "d", "tbl"), filepath.Join(keep, "data", "d", "tbl"), -1)
			copyFileN(filepath.Join(dir, "data", "d", "wal"), filepath.Join(keep, "data", "d", "wal"), -1)
			os.WriteFile(filepath.Join(keep, "info.txt"), []byte(fmt.Sprintf("round %d acked %d inflight %s\n", round, acked, steps[min(acked+1, len(steps)-1)].q)), 0644)
		}
		rc := exec.Command(exe, "-test.run=TestRevKillChild$")
		rc.Env = append(os.Environ(), "REV_CHILD=2", "REV_DIR="+dir)
		if out, err := rc.CombinedOutput(); err != nil {
			o := string(out)
			if len(o) > 600 {
				o = o[:600]
			}
			t.Fatalf("round %d: acked=%d recovery failed: %v\n%s", round, acked, err, o)
		}
		f.open()
		for _, tbl := range f.tables {
			got, _, err := readTable(f.rs, tbl)
			if err != nil {
				t.Fatalf("round %d: table %s unreadable: %v", round, tbl, err)
			}
			if sameRows(got, exp[tbl]) {
				continue
			}
			ok := false
			if acked+1 < len(steps) && steps[acked+1].tbl == tbl {
				// the in-flight statement ran from the state exp[tbl]; its prefix states were computed from there
				for _, st := range steps[acked+1].states {
					if sameRows(st, got) {
						ok = true
					}
				}
			}
			if !ok {
				t.Fatalf("round %d: acked=%d table %s\n got %v\nwant %v\nin flight: %s", round, acked, tbl, got, exp[tbl], steps[min(acked+1, len(steps)-1)].q)
			}
			inflight++
			if !sameRows(got, steps[acked+1].states[len(steps[acked+1].states)-1]) {
				midstmt++
			}
			exp[tbl] = got
		}
		f.or = exp
		f.check(fmt.Sprintf("round %d", round))
		f.rs.VerifAbandon()
	}
	t.Logf("torn flushes seen on disk=%d skipped=%d", torn, tornSkipped)
	t.Logf("rounds=%d inflight-applied=%d of which partial=%d rows=%d", rounds, inflight, midstmt, len(f.or["t0"])+len(f.or["t1"])+len(f.or["t2"]))
}

func max(a, b int) int {
	if a > b {
		return a
	}
	return b
}
