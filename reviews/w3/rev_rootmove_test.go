//go:build verif

package engine

import (
	"fmt"
	"os"
	"path/filepath"
	"strings"
	"testing"

	"github.com/mk6i/mkdb/storage"
)

// A multi-row INSERT whose k-th row moves the root of the table for the SECOND time (internal root
// split, depth 2 -> 3), cut at every byte boundary around the INSERT record and the catalog record
// that follows it; 8 tables exist, so that sys_pages itself has an internal root.
func TestRevSecondRootMoveCut(t *testing.T) {
	defer quiet()()
	wd, _ := os.Getwd()
	dir := t.TempDir()
	os.Chdir(dir)
	defer os.Chdir(wd)
	f := &fz{t: t, db: "d", or: oracle{}}
	if err := storage.CreateDB("d"); err != nil {
		t.Fatal(err)
	}
	f.open()
	for i := 0; i < 8; i++ {
		name := fmt.Sprintf("t%d", i)
		f.must("CREATE TABLE " + name + " (a int, b varchar(255))")
		f.tables = append(f.tables, name)
	}
	if f.rs.VerifHeader().PageTableRoot == 4096 {
		t.Fatalf("sys_pages root did not move with 8 tables")
	}
	tbl := "t7"
	root0, _ := f.rs.VerifRootOf(tbl)
	moves := 0
	n := 0
	last := root0
	// grow until the root has moved once and is about to move again: find the row count of the 2nd move
	// on a scratch copy first
	for moves < 2 {
		f.must(fmt.Sprintf("INSERT INTO %s VALUES (%d, 'x')", tbl, n%40))
		f.or[tbl] = append(f.or[tbl], orow{a: int64(n % 40), b: "x"})
		n++
		r, _ := f.rs.VerifRootOf(tbl)
		if r != last {
			moves++
			last = r
		}
	}
	second := n // the n-th row caused the second move
	t.Logf("second root move at row %d", second)
	f.rs.VerifAbandon()
	// start again: grow to second-4 rows, flush at random-ish places, then one statement of 8 rows
	os.RemoveAll("data")
	storage.CreateDB("d")
	f = &fz{t: t, db: "d", or: oracle{}}
	f.open()
	for i := 0; i < 8; i++ {
		name := fmt.Sprintf("t%d", i)
		f.must("CREATE TABLE " + name + " (a int, b varchar(255))")
		f.tables = append(f.tables, name)
	}
	for i := 0; i < second-4; i += 50 {
		var vs []string
		for k := i; k < i+50 && k < second-4; k++ {
			vs = append(vs, fmt.Sprintf("(%d, 'x')", k%40))
			f.or[tbl] = append(f.or[tbl], orow{a: int64(k % 40), b: "x"})
		}
		f.must("INSERT INTO " + tbl + " VALUES " + strings.Join(vs, ", "))
		if i%300 == 0 {
			f.rs.VerifFlush()
		}
	}
	walPath := filepath.Join("data", "d", "wal")
	l0 := fsize(walPath)
	before := f.or.clone()
	var vs []string
	states := [][]orow{append([]orow{}, f.or[tbl]...)}
	acc := append([]orow{}, f.or[tbl]...)
	for k := 0; k < 8; k++ {
		vs = append(vs, fmt.Sprintf("(%d, 'y%d')", k, k))
		acc = append(acc, orow{a: int64(k), b: fmt.Sprintf("y%d", k)})
		states = append(states, append([]orow{}, acc...))
	}
	rootBefore, _ := f.rs.VerifRootOf(tbl)
	q := "INSERT INTO " + tbl + " VALUES " + strings.Join(vs, ", ")
	f.must(q)
	rootAfter, _ := f.rs.VerifRootOf(tbl)
	if rootBefore == rootAfter {
		t.Fatalf("the statement did not move the root")
	}
	l1 := fsize(walPath)
	src, _ := filepath.Abs(filepath.Join("data", "d"))
	cuts := 0
	for cut := l0; cut <= l1; cut++ {
		var got []orow
		f.inImage(func(d string) {
			copyFileN(filepath.Join(src, "tbl"), filepath.Join(d, "tbl"), -1)
			copyFileN(filepath.Join(src, "wal"), filepath.Join(d, "wal"), cut)
		}, func() {
			what := fmt.Sprintf("cut at %d of [%d,%d]", cut, l0, l1)
			if err := storage.InitStorage(); err != nil {
				t.Fatalf("%s: recovery failed: %v", what, err)
			}
			rs, err := storage.VerifOpenRelation("d", false, 0)
			if err != nil {
				t.Fatal(err)
			}
			got, _, err = readTable(rs, tbl)
			if err != nil {
				t.Fatalf("%s: unreadable: %v", what, err)
			}
			rs.VerifAbandon()
			ok := false
			for _, st := range states {
				if sameRows(st, got) {
					ok = true
				}
			}
			if !ok {
				t.Fatalf("%s: not a row prefix (%d rows, before %d)", what, len(got), len(states[0]))
			}
			if cut%7 == 0 {
				st := before.clone()
				st[tbl] = got
				f.rng = newRng(cut)
				f.probeImage(what, st)
			}
			cuts++
		})
	}
	t.Logf("%d cuts checked", cuts)
}
