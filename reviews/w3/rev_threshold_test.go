//go:build verif

package engine

import (
	"fmt"
	"os"
	"testing"

	"github.com/mk6i/mkdb/storage"
)

func TestRevPtRootThreshold(t *testing.T) {
	defer quiet()()
	wd, _ := os.Getwd()
	os.Chdir(t.TempDir())
	defer os.Chdir(wd)
	storage.CreateDB("d")
	f := &fz{t: t, db: "d", or: oracle{}}
	f.open()
	for i := 1; i <= 9; i++ {
		f.must(fmt.Sprintf("CREATE TABLE u%d (a int)", i))
		t.Logf("user tables=%d ptRoot=%d", i, f.rs.VerifHeader().PageTableRoot)
	}
	rows, _, _ := f.rs.Fetch("sys_pages")
	for _, r := range rows {
		t.Logf("sys_pages row %d: %v", r.RowID, r.Vals)
	}
}
