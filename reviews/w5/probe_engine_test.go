package engine

import (
	"fmt"
	"os"
	"runtime"
	"strings"
	"testing"
	"time"

	"github.com/mk6i/mkdb/sql"
	"github.com/mk6i/mkdb/storage"
)

func chtmp(t *testing.T) func() {
	dir := t.TempDir()
	old, _ := os.Getwd()
	os.Chdir(dir)
	return func() { os.Chdir(old) }
}

func nfds() int {
	es, _ := os.ReadDir("/proc/self/fd")
	return len(es)
}

func try(s *Session, q string) (res string) {
	defer func() {
		if r := recover(); r != nil {
			res = fmt.Sprintf("PANIC %v", r)
		}
	}()
	if err := s.ExecQuery(q); err != nil {
		return "err " + err.Error()
	}
	return "ok"
}

func sel(t *testing.T, s *Session, q string) string {
	st, err := parseSQL(q)
	if err != nil {
		return "parse err " + err.Error()
	}
	rows, _, err := EvaluateSelect(st.(sql.Select), s.RelationService)
	if err != nil {
		return "err " + err.Error()
	}
	var sb strings.Builder
	for _, r := range rows {
		sb.WriteString(fmt.Sprint(r.Vals))
	}
	return sb.String()
}

// E2: USE any number of times - descriptors, goroutines
func TestProbeManySwitches(t *testing.T) {
	defer chtmp(t)()
	s := &Session{}
	for _, q := range []string{"CREATE DATABASE a", "CREATE DATABASE b", "USE a", "CREATE TABLE t (x int)", "USE b", "CREATE TABLE t (x int)"} {
		if r := try(s, q); r != "ok" {
			t.Fatal(q, r)
		}
	}
	fd0, g0 := nfds(), runtime.NumGoroutine()
	for i := 0; i < 1500; i++ {
		for _, q := range []string{"USE a", fmt.Sprintf("INSERT INTO t VALUES (%d)", i), "USE A", "USE nosuch", "CREATE DATABASE a", "USE b", fmt.Sprintf("INSERT INTO t VALUES (%d)", 100000+i), "USE b", "SHOW DATABASES"} {
			r := try(s, q)
			want := "ok"
			if q == "USE nosuch" || q == "CREATE DATABASE a" {
				want = "err"
			}
			if !strings.HasPrefix(r, want) {
				t.Fatalf("round %d %s: %s", i, q, r)
			}
		}
	}
	time.Sleep(150 * time.Millisecond)
	fd1, g1 := nfds(), runtime.NumGoroutine()
	t.Logf("fds %d -> %d, goroutines %d -> %d", fd0, fd1, g0, g1)
	if fd1 > fd0+2 || g1 > g0+2 {
		t.Errorf("leak: fds %d -> %d, goroutines %d -> %d", fd0, fd1, g0, g1)
	}
	try(s, "USE a")
	a := sel(t, s, "SELECT count(*) FROM t")
	try(s, "USE b")
	b := sel(t, s, "SELECT count(*) FROM t")
	t.Logf("a=%s b=%s", a, b)
	if a != "[1500]" || b != "[1500]" {
		t.Errorf("row counts a=%s b=%s", a, b)
	}
	s.Close()
	if err := storage.InitStorage(); err != nil {
		t.Fatal(err)
	}
	s = &Session{}
	try(s, "USE a")
	if a := sel(t, s, "SELECT count(*) FROM t"); a != "[1500]" {
		t.Errorf("after restart a=%s", a)
	}
	s.Close()
}

// E4: odd database names
func TestProbeOddNames(t *testing.T) {
	defer chtmp(t)()
	s := &Session{}
	for _, q := range []string{`CREATE DATABASE ""`, `USE ""`, `SHOW DATABASES`, `CREATE DATABASE " "`, `USE " "`, `CREATE TABLE t (a int)`, `INSERT INTO t VALUES (1)`,
		`CREATE DATABASE "a b"`, `CREATE DATABASE "tbl"`, `CREATE DATABASE "wal"`, `CREATE DATABASE data`, "CREATE DATABASE \"x\\y\"", `CREATE DATABASE "a\"b"`, `CREATE DATABASE 'q'`, `USE 'q'`, `CREATE DATABASE 123`, `USE 123`, `CREATE DATABASE select`, `USE select`,
		`CREATE DATABASE "` + strings.Repeat("K", 100) + `"`, `USE "` + strings.Repeat("K", 100) + `"`, `SHOW DATABASES`} {
		t.Logf("%-40.40s -> %s", q, try(s, q))
	}
	rows, _, _ := storage.ShowDB()
	for _, r := range rows {
		t.Logf("db %q", r.Vals[0])
	}
	s.Close()
}

// E5: select-list shapes the C18 theorem excludes by hypothesis
func TestProbeStarShapes(t *testing.T) {
	defer chtmp(t)()
	s := &Session{}
	for _, q := range []string{"CREATE DATABASE d", "USE d", "CREATE TABLE t (a int, b varchar(10))", "INSERT INTO t VALUES (1,'x')", "INSERT INTO t (a) VALUES (2)", "INSERT INTO t (b) VALUES ('z')", "CREATE TABLE u (a int, c boolean)", "INSERT INTO u VALUES (1,TRUE)", "INSERT INTO u (a) VALUES (3)"} {
		if r := try(s, q); r != "ok" {
			t.Fatal(q, r)
		}
	}
	for _, q := range []string{
		"SELECT *, a FROM t", "SELECT a, * FROM t", "SELECT *, * FROM t", "SELECT t.* FROM t", "SELECT *, count(*) FROM t", "SELECT count(*), * FROM t",
		"SELECT * FROM t GROUP BY a", "SELECT *, a FROM t GROUP BY a", "SELECT * , avg(a) FROM t GROUP BY b", "SELECT * AS x FROM t", "SELECT * FROM t ORDER BY a", "SELECT * FROM t, u ORDER BY a",
		"SELECT * FROM t JOIN u ON t.a = u.a ORDER BY c", "SELECT * FROM t LEFT JOIN u ON t.a = u.a ORDER BY u.c DESC", "SELECT count(*) FROM t GROUP BY a ORDER BY a",
		"SELECT a FROM t GROUP BY a ORDER BY b", "SELECT count(a), avg(a) FROM t ORDER BY a", "SELECT * FROM t LIMIT 0", "SELECT * FROM t OFFSET 5", "SELECT * FROM t LIMIT 1 OFFSET 9223372036854775807",
		"SELECT * FROM t LIMIT 9223372036854775807 OFFSET 1", "SELECT * FROM t LIMIT -1", "SELECT * FROM sys_schema ORDER BY field_type", "SELECT 1", "SELECT 1 FROM t", "SELECT 'a' AS k, a FROM t ORDER BY k",
		"SELECT a AS b, b AS a FROM t ORDER BY a", "SELECT * FROM t t1 JOIN t t2 ON t1.a = t2.a JOIN t t3 ON t1.a = t3.a", "SELECT * FROM t RIGHT JOIN u ON t.b = u.c",
		"SELECT count(*) FROM t WHERE a = NULL", "SELECT * FROM t WHERE NULL", "SELECT * FROM t WHERE a", "SELECT * FROM t WHERE b = 1 OR a = 'x'", "SELECT avg(b), count(c) FROM t JOIN u ON t.a = u.a GROUP BY b",
		"SELECT * FROM t WHERE a = TRUE", "SELECT * FROM u WHERE c > FALSE", "SELECT * FROM u ORDER BY c", "SELECT * FROM u WHERE c = 1",
		"UPDATE t SET a = NULL", "UPDATE t SET a = 'x'", "UPDATE t SET b = 5 WHERE a = 1", "DELETE FROM t WHERE b > 1", "DELETE FROM t WHERE nosuch = 1", "INSERT INTO t VALUES (NULL, NULL)", "INSERT INTO t (a) VALUES (TRUE)",
		"INSERT INTO t VALUES ()", "INSERT INTO t () VALUES ()", "CREATE TABLE e ()", "INSERT INTO e VALUES ()", "SELECT * FROM e", "SELECT count(*) FROM e", "SELECT * FROM e, t", "SELECT * FROM t JOIN e ON t.a = 1",
	} {
		r := try(s, q)
		if strings.HasPrefix(r, "PANIC") {
			t.Errorf("%s -> %s", q, r)
		} else {
			t.Logf("%-60.60s -> %.80s", q, r)
		}
	}
	s.Close()
}

func TestProbeAggSort(t *testing.T) {
	defer chtmp(t)()
	s := &Session{}
	for _, q := range []string{"CREATE DATABASE d", "USE d", "CREATE TABLE t (a int, b varchar(10), c bigint, d boolean)", "INSERT INTO t VALUES (1,'x',5,TRUE)", "INSERT INTO t (a) VALUES (2)", "INSERT INTO t (b) VALUES ('z')", "INSERT INTO t (c,d) VALUES (9, FALSE)"} {
		if r := try(s, q); r != "ok" {
			t.Fatal(q, r)
		}
	}
	for _, q := range []string{
		"SELECT a, count(*) FROM t GROUP BY a ORDER BY count(*)", "SELECT a, count(*) AS n FROM t GROUP BY a ORDER BY n", "SELECT a, count(*) AS n FROM t GROUP BY a ORDER BY n DESC, a",
		"SELECT b, avg(c) AS m FROM t GROUP BY b ORDER BY m", "SELECT count(*) AS n, avg(a) AS m FROM t WHERE a >= 1 ORDER BY n", "SELECT d, count(b) FROM t GROUP BY d ORDER BY d",
		"SELECT a AS x, c AS x FROM t ORDER BY x", "SELECT a, a FROM t ORDER BY a", "SELECT t.a, u.a FROM t JOIN t u ON t.a = u.a ORDER BY a", "SELECT t.a, u.a FROM t JOIN t u ON t.a = u.a ORDER BY u.a DESC",
		"SELECT count(*) FROM t ORDER BY nosuch", "SELECT count(*) FROM t GROUP BY nosuch", "SELECT a FROM t GROUP BY a, a", "SELECT a, b FROM t GROUP BY a", "SELECT avg(a) FROM t GROUP BY a",
		"SELECT count(nosuch) FROM t", "SELECT avg(nosuch) FROM t", "SELECT avg(*) FROM t", "SELECT count(t.a) FROM t", "SELECT count(u.a) FROM t", "SELECT count(a), a FROM t", "SELECT a, count(a) FROM t",
		"SELECT a FROM t WHERE a = 1 AND b", "SELECT a FROM t WHERE (a = 1) = (b = 'x')", "SELECT a FROM t WHERE a = b", "SELECT a FROM t WHERE a = c", "SELECT a FROM t WHERE a < c", "SELECT a FROM t WHERE d = d", "SELECT a FROM t WHERE d < d",
		"SELECT a FROM t WHERE 1 = 1", "SELECT a FROM t WHERE 1 < 'x'", "SELECT a FROM t WHERE 'x' = 'x'", "SELECT a FROM t WHERE TRUE", "SELECT a FROM t WHERE TRUE = TRUE", "SELECT a FROM t WHERE TRUE < FALSE",
		"SELECT a FROM t JOIN t ON a = a", "SELECT a FROM t JOIN t u ON 1", "SELECT a FROM t JOIN t u ON 'x'", "SELECT t.a FROM t JOIN t u ON TRUE", "SELECT t.a FROM t LEFT JOIN t u ON t.d", "SELECT t.a FROM t LEFT JOIN t u ON t.d = TRUE ORDER BY u.b",
		"SELECT * FROM t x JOIN t x ON x.a = x.a", "SELECT x.a FROM t x JOIN t x ON x.a = 1", "SELECT * FROM t AS t", "SELECT t.a FROM t AS u", "SELECT u.nosuch FROM t AS u",
		"DELETE FROM t WHERE d", "DELETE FROM t WHERE a = 1 OR", "UPDATE t SET a = 1, a = 2", "UPDATE t SET d = 1", "UPDATE t SET c = 99999999999999999999", "UPDATE t SET a = 2147483648", "UPDATE t SET a = 2147483647 WHERE d = TRUE",
		"UPDATE sys_pages SET file_offset = file_offset", "SHOW DATABASES", "USE d", "USE D",
	} {
		r := try(s, q)
		if strings.HasPrefix(r, "PANIC") {
			t.Errorf("%s -> %s", q, r)
		} else {
			t.Logf("%-70.70s -> %.70s", q, r)
		}
	}
	s.Close()
}

func TestProbeUnicodeCaseAndLeak(t *testing.T) {
	defer chtmp(t)()
	s := &Session{}
	for _, q := range []string{`CREATE DATABASE "É"`, `USE "é"`, `CREATE TABLE onlyhere (x int)`, `INSERT INTO onlyhere VALUES (7)`, `CREATE DATABASE "é"`, `CREATE DATABASE Foo`, `USE FOO`, `CREATE TABLE t1 (x int)`, `INSERT INTO t1 VALUES (1)`, `USE "É"`, `INSERT INTO onlyhere VALUES (8)`, `SHOW DATABASES`} {
		t.Logf("%-40s -> %s", q, try(s, q))
	}
	rows, _, _ := storage.ShowDB()
	for _, r := range rows {
		t.Logf("db %q", r.Vals[0])
	}
	s.Close()
	if err := storage.InitStorage(); err != nil {
		t.Fatal(err)
	}
	s = &Session{}
	for _, db := range []string{`"é"`, "foo"} {
		try(s, "USE "+db)
		t.Logf("%s tables: %s", db, sel(t, s, "SELECT table_name FROM sys_pages"))
	}
	t.Logf("onlyhere in é: %s", func() string { try(s, `USE "É"`); return sel(t, s, "SELECT x FROM onlyhere") }())
	t.Logf("onlyhere in foo: %s", func() string { try(s, `USE foo`); return sel(t, s, "SELECT x FROM onlyhere") }())
	s.Close()
}
