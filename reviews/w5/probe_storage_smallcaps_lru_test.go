package storage

import (
	"errors"
	"fmt"
	"os"
	"strings"
	"testing"
)

// run a workload at the given capacity; flush after every statement.
// returns a transcript of outcomes and whether any cache-full refusal happened.
func c16run(t *testing.T, cap int, rowsN int, rowLen int) (string, bool) {
	dir := t.TempDir()
	old, _ := os.Getwd()
	os.Chdir(dir)
	defer os.Chdir(old)
	if err := CreateDB("d"); err != nil {
		t.Fatal(err)
	}
	path, _, _ := dbFilePath("d")
	fs, err := newFileStore(path, false)
	if err != nil {
		t.Fatal(err)
	}
	if cap > 0 {
		fs.cache = NewLRU(cap)
	}
	if err := fs.open(); err != nil {
		t.Fatal(err)
	}
	w, err := newWal("d", false)
	if err != nil {
		t.Fatal(err)
	}
	rs := &RelationService{fs: fs, wal: w}
	var sb strings.Builder
	full := false
	note := func(what string, err error) {
		if err != nil {
			if errors.Is(err, ErrLRUCacheFull) {
				full = true
			}
			fmt.Fprintf(&sb, "%s: err %v\n", what, err)
		} else {
			fmt.Fprintf(&sb, "%s: ok\n", what)
		}
	}
	rel := &Relation{Fields: []FieldDef{{Name: "a", DataType: TypeInt}, {Name: "b", DataType: TypeVarchar, Len: 255}}}
	note("create", rs.CreateTable(rel, "t"))
	pad := strings.Repeat("x", rowLen)
	for i := 0; i < rowsN; i++ {
		rs.StartTxn()
		b, err := rs.Insert("t", nil, []interface{}{int64(i), pad})
		if err == nil {
			err = rs.FlushWALBatch(b)
		}
		rs.EndTxn()
		note(fmt.Sprintf("insert %d", i), err)
		if err := fs.flushPages(); err != nil {
			note("flush", err)
		}
	}
	// delete a few rows by id, through findCell (descends from the root)
	for _, id := range []uint32{1, uint32(rowsN / 2), uint32(rowsN)} {
		rs.StartTxn()
		b, err := rs.MarkDeleted("t", id)
		if err == nil {
			err = rs.FlushWALBatch(b)
		}
		rs.EndTxn()
		note(fmt.Sprintf("delete %d", id), err)
		fs.flushPages()
	}
	rows, _, err := rs.Fetch("t")
	note("fetch", err)
	for _, r := range rows {
		fmt.Fprintf(&sb, "%d:%v ", r.RowID, r.Vals[0])
	}
	rs.Close()
	return sb.String(), full
}

func TestC16SmallCaps(t *testing.T) {
	for _, shape := range [][2]int{{40, 10}, {300, 10}, {1400, 10}, {60, 380}} {
		ref, _ := c16run(t, 0, shape[0], shape[1])
		for cap := 1; cap <= 8; cap++ {
			got, full := c16run(t, cap, shape[0], shape[1])
			switch {
			case got == ref:
				t.Logf("rows=%d len=%d cap=%d: same", shape[0], shape[1], cap)
			case full && firstDiff(ref, got) >= firstFull(got):
				t.Logf("rows=%d len=%d cap=%d: differs from line %d, first cache-full refusal at line %d (outside precondition)", shape[0], shape[1], cap, firstDiff(ref, got), firstFull(got))
			default:
				// first differing line
				a, b := strings.Split(ref, "\n"), strings.Split(got, "\n")
				d := ""
				for i := range a {
					if i >= len(b) || a[i] != b[i] {
						bb := ""
						if i < len(b) {
							bb = b[i]
						}
						if len(bb) > 200 {
							bb = bb[:200]
						}
						aa := a[i]
						if len(aa) > 200 {
							aa = aa[:200]
						}
						d = fmt.Sprintf("line %d: default=[%s] cap=[%s]", i, aa, bb)
						break
					}
				}
				t.Errorf("rows=%d len=%d cap=%d: DIFFERS WITHOUT ANY REFUSAL: %s", shape[0], shape[1], cap, d)
			}
		}
	}
}

func firstDiff(a, b string) int {
	x, y := strings.Split(a, "\n"), strings.Split(b, "\n")
	for i := range x {
		if i >= len(y) || x[i] != y[i] {
			return i
		}
	}
	return len(x)
}

func firstFull(b string) int {
	for i, l := range strings.Split(b, "\n") {
		if strings.Contains(l, "cache is full") {
			return i
		}
	}
	return 1 << 30
}

// phase 1 at the default capacity builds the table; phase 2 (the workload proper) runs at capacity cap
func c16run2(t *testing.T, cap int, pre int, more int, rowLen int) (out string, full bool) {
	defer func() {
		if r := recover(); r != nil {
			out += fmt.Sprintf("PANIC %v (cache is full)", r)
			full = true
		}
	}()
	dir := t.TempDir()
	old, _ := os.Getwd()
	os.Chdir(dir)
	defer os.Chdir(old)
	if err := CreateDB("d"); err != nil {
		t.Fatal(err)
	}
	open := func(cap int) *RelationService {
		path, _, _ := dbFilePath("d")
		fs, err := newFileStore(path, false)
		if err != nil {
			t.Fatal(err)
		}
		if cap > 0 {
			fs.cache = NewLRU(cap)
		}
		if err := fs.open(); err != nil {
			t.Fatal(err)
		}
		w, err := newWal("d", false)
		if err != nil {
			t.Fatal(err)
		}
		return &RelationService{fs: fs, wal: w}
	}
	rs := open(0)
	rel := &Relation{Fields: []FieldDef{{Name: "a", DataType: TypeInt}, {Name: "b", DataType: TypeVarchar, Len: 255}}}
	if err := rs.CreateTable(rel, "t"); err != nil {
		t.Fatal(err)
	}
	pad := strings.Repeat("x", rowLen)
	for i := 0; i < pre; i++ {
		rs.StartTxn()
		b, err := rs.Insert("t", nil, []interface{}{int64(i), pad})
		if err == nil {
			err = rs.FlushWALBatch(b)
		}
		rs.EndTxn()
		if err != nil {
			t.Fatal(err)
		}
	}
	rs.Close()
	rs = open(cap)
	fs := rs.fs
	var sb strings.Builder
	defer func() { out = sb.String() + out }()
	note := func(what string, err error) {
		if err != nil {
			if errors.Is(err, ErrLRUCacheFull) {
				full = true
			}
			fmt.Fprintf(&sb, "%s: err %v\n", what, err)
		} else {
			fmt.Fprintf(&sb, "%s: ok\n", what)
		}
	}
	for i := pre; i < pre+more; i++ {
		rs.StartTxn()
		b, err := rs.Insert("t", nil, []interface{}{int64(i), pad})
		if err == nil {
			err = rs.FlushWALBatch(b)
		}
		rs.EndTxn()
		note(fmt.Sprintf("insert %d", i), err)
		if err := fs.flushPages(); err != nil {
			note("flush", err)
		}
	}
	for _, id := range []uint32{1, uint32(pre / 2), uint32(pre + 1), uint32(pre + more/2), uint32(pre + more)} {
		rs.StartTxn()
		b, err := rs.MarkDeleted("t", id)
		if err == nil {
			err = rs.FlushWALBatch(b)
		}
		rs.EndTxn()
		note(fmt.Sprintf("delete %d", id), err)
		fs.flushPages()
	}
	rows, _, err := rs.Fetch("t")
	note("fetch", err)
	for _, r := range rows {
		fmt.Fprintf(&sb, "%d:%v ", r.RowID, r.Vals[0])
	}
	rs.Close()
	return "", full
}

func TestC16SmallCapsExistingDB(t *testing.T) {
	for _, shape := range [][3]int{{20, 40, 10}, {200, 200, 10}, {1300, 400, 10}, {30, 60, 380}, {30000, 3000, 10}} {
		ref, _ := c16run2(t, 0, shape[0], shape[1], shape[2])
		for cap := 1; cap <= 8; cap++ {
			got, full := c16run2(t, cap, shape[0], shape[1], shape[2])
			switch {
			case got == ref:
				t.Logf("pre=%d more=%d len=%d cap=%d: same", shape[0], shape[1], shape[2], cap)
			case full && firstDiff(ref, got) >= firstFull(got):
				t.Logf("pre=%d more=%d len=%d cap=%d: differs from line %d, first cache-full refusal at line %d (outside precondition)", shape[0], shape[1], shape[2], cap, firstDiff(ref, got), firstFull(got))
			default:
				i := firstDiff(ref, got)
				a, b := strings.Split(ref, "\n"), strings.Split(got, "\n")
				aa, bb := a[i], ""
				if i < len(b) {
					bb = b[i]
				}
				if len(aa) > 150 {
					aa = aa[:150]
				}
				if len(bb) > 150 {
					bb = bb[:150]
				}
				t.Errorf("pre=%d more=%d len=%d cap=%d: DIFFERS BEFORE ANY REFUSAL (first refusal line %d): line %d: default=[%s] cap=[%s]", shape[0], shape[1], shape[2], cap, firstFull(got), i, aa, bb)
			}
		}
	}
}

// B1: a dirty (unsaved) page is dropped from the cache by a set of its own key with another page;
// Spec/LRU.lean setSpec, C15_dirty_pinned (exception clause) and the judge accept this
func TestProbeLRUDirtyReplaced(t *testing.T) {
	c := NewLRU(2)
	unsaved := &btreeNode{fileOffset: 10, dirty: true}
	c.set(uint64(1), unsaved)
	c.set(uint64(1), &btreeNode{fileOffset: 11})
	n, _ := c.get(uint64(1))
	t.Logf("resident under key 1: page %d dirty=%v; the unsaved page 10 is no longer in the cache (len=%d)", n.fileOffset, n.dirty, len(c.cache))
}
