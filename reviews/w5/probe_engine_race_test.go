package engine

import (
	"fmt"
	"testing"
	"time"
)

// statements of all five kinds across many ticks of the real timer, with long SELECTs (joins) while
// dirty pages are pending, and database switches in between
func TestProbeRaceStorm(t *testing.T) {
	defer chtmp(t)()
	s := &Session{}
	for _, q := range []string{"CREATE DATABASE a", "CREATE DATABASE b", "USE a", "CREATE TABLE t (x int, y varchar(20))", "USE b", "CREATE TABLE t (x int, y varchar(20))"} {
		if r := try(s, q); r != "ok" {
			t.Fatal(q, r)
		}
	}
	deadline := time.Now().Add(2500 * time.Millisecond)
	for i := 0; time.Now().Before(deadline); i++ {
		db := []string{"a", "b"}[i%2]
		qs := []string{"USE " + db,
			fmt.Sprintf("INSERT INTO t VALUES (%d, 'r'), (%d, 's'), (%d, 'q')", i, i+1, i+2),
			"SELECT count(*) FROM t t1 JOIN t t2 ON t1.x = t2.x",
			fmt.Sprintf("UPDATE t SET y = 'u%d' WHERE x >= %d", i, i/2),
			"SELECT * FROM t ORDER BY y DESC LIMIT 5",
			fmt.Sprintf("DELETE FROM t WHERE x = %d", i/3),
			fmt.Sprintf("CREATE TABLE n%d (x int)", i),
			"SELECT table_name FROM sys_pages"}
		for _, q := range qs {
			if r := try(s, q); r != "ok" {
				t.Fatalf("%s: %s", q, r)
			}
		}
	}
	s.Close()
}

// the console's signal handler closes the session from another goroutine: during a SELECT, during a USE
func TestProbeCloseDuringSelectAndUse(t *testing.T) {
	for _, victim := range []string{"SELECT count(*) FROM t t1 JOIN t t2 ON t1.x = t2.x", "USE b", "CREATE TABLE z (x int)", "UPDATE t SET y = 'k'", "DELETE FROM t WHERE x >= 0"} {
		func() {
			defer chtmp(t)()
			s := &Session{}
			for _, q := range []string{"CREATE DATABASE a", "CREATE DATABASE b", "USE a", "CREATE TABLE t (x int, y varchar(20))"} {
				if r := try(s, q); r != "ok" {
					t.Fatal(q, r)
				}
			}
			for i := 0; i < 6; i++ {
				vs := ""
				for k := 0; k < 200; k++ {
					if k > 0 {
						vs += ", "
					}
					vs += fmt.Sprintf("(%d, 'v')", i*200+k)
				}
				try(s, "INSERT INTO t VALUES "+vs)
			}
			done := make(chan string, 1)
			go func() { done <- try(s, victim) }()
			time.Sleep(2 * time.Millisecond)
			cerr := make(chan string, 1)
			go func() {
				defer func() {
					if r := recover(); r != nil {
						cerr <- fmt.Sprint("PANIC ", r)
					}
				}()
				if err := s.Close(); err != nil {
					cerr <- err.Error()
				} else {
					cerr <- "ok"
				}
			}()
			var r1, r2 string
			select {
			case r1 = <-done:
			case <-time.After(10 * time.Second):
				r1 = "HANG"
			}
			select {
			case r2 = <-cerr:
			case <-time.After(10 * time.Second):
				r2 = "HANG"
			}
			t.Logf("%-50s stmt=%.60s close=%.60s", victim, r1, r2)
			if r1 == "HANG" || r2 == "HANG" || len(r1) > 5 && r1[:5] == "PANIC" || len(r2) > 5 && r2[:5] == "PANIC" {
				t.Errorf("%s: stmt=%s close=%s", victim, r1, r2)
			}
		}()
	}
}
