package engine

// Observation O1 (not a violation of the fixed property texts as I read them - see report.md):
// Session.Close() from another goroutine (what cmd/console's signal handler does) while the session
// goroutine executes USE <other database>: both goroutines run RelationService.Close of the SAME old
// service; fileStore.stopFlusher is not safe against that (page.go:678-684): both see ticker != nil,
// the flusher goroutine takes one of the two sends on tickerDone and exits, the other sender blocks
// for ever.  If the loser is the signal handler, the process never exits on SIGTERM/SIGHUP and every
// later signal is ignored; if the loser is the session, the console is dead.
//
// copy to /tmp/rev/w5/engine/ and run:
//   go test -vet=off -count=1 -run TestObsCloseDuringUseHangs ./engine        (add -race for the two race reports)

import (
	"fmt"
	"os"
	"testing"
	"time"
)

func TestObsCloseDuringUseHangs(t *testing.T) {
	old, _ := os.Getwd()
	defer os.Chdir(old)
	hangs, tries := 0, 25
	for a := 0; a < tries; a++ {
		os.Chdir(t.TempDir())
		s := &Session{}
		for _, q := range []string{"CREATE DATABASE a", "CREATE DATABASE b", "USE a", "CREATE TABLE t (x int, y varchar(20))"} {
			if err := s.ExecQuery(q); err != nil {
				t.Fatal(q, err)
			}
		}
		vs := ""
		for k := 0; k < 900; k++ {
			if k > 0 {
				vs += ", "
			}
			vs += fmt.Sprintf("(%d, 'v')", k)
		}
		if err := s.ExecQuery("INSERT INTO t VALUES " + vs); err != nil {
			t.Fatal(err)
		}
		stmt, closed := make(chan error, 1), make(chan error, 1)
		go func() { stmt <- s.ExecQuery("USE b") }()
		time.Sleep(time.Duration(a%5) * 300 * time.Microsecond)
		go func() { closed <- s.Close() }() // the signal handler of cmd/console/main.go
		for _, ch := range []chan error{stmt, closed} {
			select {
			case <-ch:
			case <-time.After(3 * time.Second):
				hangs++
			}
		}
	}
	if hangs > 0 {
		t.Errorf("%d of %d attempts: USE or the concurrent Session.Close never returned (blocked in fileStore.stopFlusher on tickerDone)", hangs, tries)
	}
}
