package storage

// Candidate 1 (property C08, minor): a direct statement value whose Go type is
// a *named* type with an integer / string / boolean underlying kind (for
// example time.Duration for a BIGINT column) is neither stored nor refused with
// an error: FieldDef.Validate compares reflect *kinds*, lets the value through
// (or trips over it itself), and the following type assertion panics.
//
// Copy this file to storage/ and run (in the repository root):
//
//	GOFLAGS=-mod=mod go test -vet=off -count=1 -run TestCand1 ./storage

import (
	"errors"
	"fmt"
	"os"
	"testing"
	"time"
)

type cand1Name string
type cand1Flag bool

func TestCand1NamedTypeValuePanics(t *testing.T) {
	dir := t.TempDir()
	wd, _ := os.Getwd()
	if err := os.Chdir(dir); err != nil {
		t.Fatal(err)
	}
	defer os.Chdir(wd)
	// the storage layer prints progress messages: keep the test output readable
	stdout := os.Stdout
	if null, err := os.OpenFile(os.DevNull, os.O_WRONLY, 0); err == nil {
		os.Stdout = null
		defer func() { os.Stdout = stdout; null.Close() }()
	}

	if err := InitStorage(); err != nil {
		t.Fatal(err)
	}
	if err := CreateDB("d"); err != nil {
		t.Fatal(err)
	}
	rs, err := OpenRelation("d", false)
	if err != nil {
		t.Fatal(err)
	}
	defer rs.Close()
	rel := &Relation{Fields: []FieldDef{
		{Name: "i", DataType: TypeInt},
		{Name: "g", DataType: TypeBigInt},
		{Name: "s", DataType: TypeVarchar, Len: 10},
		{Name: "b", DataType: TypeBoolean},
	}}
	if err := rs.CreateTable(rel, "t"); err != nil {
		t.Fatal(err)
	}

	// every row holds one value of a wrong (named) type: C08 wants each of them
	// "refused with an error"
	cases := [][]interface{}{
		{time.Duration(5), int64(1), "x", true},    // INT column
		{int64(1), time.Duration(5), "x", true},    // BIGINT column
		{int64(1), int64(1), cand1Name("x"), true}, // VARCHAR column
		{int64(1), int64(1), "x", cand1Flag(true)}, // BOOLEAN column
	}
	for n, vals := range cases {
		func() {
			rs.StartTxn()
			defer rs.EndTxn()
			defer func() {
				if r := recover(); r != nil {
					t.Errorf("case %d: INSERT of %T panicked instead of returning an error: %v", n, vals[n], r)
				}
			}()
			_, err := rs.Insert("t", nil, vals)
			if err == nil {
				t.Errorf("case %d: value of type %T was accepted", n, vals[n])
			} else if !errors.Is(err, ErrTypeMismatch) {
				t.Errorf("case %d: unexpected error %v", n, err)
			}
		}()
	}

	// the same through UPDATE
	rs.StartTxn()
	w, err := rs.Insert("t", nil, []interface{}{int64(1), int64(2), "x", true})
	if err != nil {
		t.Fatal(err)
	}
	rs.EndTxn()
	func() {
		rs.StartTxn()
		defer rs.EndTxn()
		defer func() {
			if r := recover(); r != nil {
				t.Errorf("UPDATE with %T panicked instead of returning an error: %v", time.Duration(7), r)
			}
		}()
		if _, err := rs.Update("t", w[0].cellID, []string{"g"}, []interface{}{time.Duration(7)}); err == nil {
			t.Errorf("UPDATE accepted a time.Duration for a BIGINT column")
		}
	}()

	// nothing but the one good row is stored
	rs.StartTxn()
	rows, _, err := rs.Fetch("t")
	rs.EndTxn()
	if err != nil {
		t.Fatal(err)
	}
	if len(rows) != 1 || fmt.Sprint(rows[0].Vals) != "[1 2 x true]" {
		t.Errorf("table content changed: %v", rows)
	}
}
