package engine

// Candidate 1 (hunt3/w5): Session.Close from a second goroutine - what the
// console's shutdown handler does on SIGHUP/SIGINT/SIGTERM/SIGQUIT
// (cmd/console/main.go: shutdownHandler(func() { sess.Close() })) - while the
// main goroutine executes USE.
//
// Copy to engine/cand1_test.go and run
//
//	go test -vet=off -count=1 -run TestCand1 ./engine          (hang: one of the two calls never returns)
//	go test -race -vet=off -count=1 -run TestCand1 ./engine    (also: DATA RACE on Session.RelationService
//	                                                            and on fileStore.ticker)
//
// Both calls close the store of the previously selected database. Both run
// fileStore.stopFlusher, which is not safe for two callers: each sees
// ticker != nil and sends on tickerDone, the flusher goroutine receives one of
// the two messages and ends, the other sender blocks for ever. If the loser
// is the shutdown handler the process can no longer be ended by a signal (the
// handler goroutine never reaches os.Exit and swallows every later signal);
// if the loser is the main goroutine the console is frozen.

import (
	"fmt"
	"os"
	"strings"
	"testing"
	"time"

	"github.com/mk6i/mkdb/storage"
)

func TestCand1CloseDuringUse(t *testing.T) {
	old, err := os.Getwd()
	if err != nil {
		t.Fatal(err)
	}
	if err := os.Chdir(t.TempDir()); err != nil {
		t.Fatal(err)
	}
	defer os.Chdir(old)

	if err := storage.InitStorage(); err != nil {
		t.Fatal(err)
	}
	s := &Session{}
	must := func(q string) {
		t.Helper()
		if err := s.ExecQuery(q); err != nil {
			t.Fatalf("%.60s: %v", q, err)
		}
	}
	must("CREATE DATABASE a")
	must("CREATE DATABASE b")
	must("USE a")
	must("CREATE TABLE t (id int, name varchar(100))")

	// one statement that runs longer than the flush interval and dirties about
	// 1500 pages: the page flusher is waiting for the statement lock when the
	// statement ends and is busy writing pages right afterwards
	var sb strings.Builder
	sb.WriteString("INSERT INTO t VALUES ")
	for i := 0; i < 6000; i++ {
		if i > 0 {
			sb.WriteString(",")
		}
		fmt.Fprintf(&sb, "(%d,'n')", i)
	}
	must(sb.String())

	useDone := make(chan error, 1)
	closeDone := make(chan error, 1)
	go func() { closeDone <- s.Close() }()            // the shutdown handler
	go func() { useDone <- s.ExecQuery("USE b") }() // the console's main loop

	timeout := time.After(10 * time.Second)
	for useDone != nil || closeDone != nil {
		select {
		case err := <-useDone:
			t.Logf("USE b returned: %v", err)
			useDone = nil
		case err := <-closeDone:
			t.Logf("Session.Close returned: %v", err)
			closeDone = nil
		case <-timeout:
			if useDone != nil {
				t.Errorf("USE b has not returned after 10s (console frozen)")
			}
			if closeDone != nil {
				t.Errorf("Session.Close has not returned after 10s (the shutdown handler never reaches os.Exit)")
			}
			return
		}
	}
}
