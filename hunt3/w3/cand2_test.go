// Candidate 2 (C06, low severity): an ambiguous (or unknown) column name in an
// ON or WHERE condition is rejected only if the condition happens to be
// evaluated for at least one row. With an empty table on one side of the join
// the same statement is accepted.
//
// Copy into /tmp/hunt3/w3/engine/ (package engine) and run
//
//	export GOFLAGS=-mod=mod GOPROXY=off GOSUMDB=off GOTOOLCHAIN=local
//	go test -vet=off -count=1 -run TestCand2 ./engine/
package engine

import (
	"errors"
	"os"
	"testing"

	"github.com/mk6i/mkdb/storage"
)

func TestCand2AmbiguousNameAcceptedOnEmptyTable(t *testing.T) {
	old, _ := os.Getwd()
	if err := os.Chdir(t.TempDir()); err != nil {
		t.Fatal(err)
	}
	defer os.Chdir(old)

	s := &Session{}
	defer s.Close()
	for _, q := range []string{
		"CREATE DATABASE d",
		"USE d",
		"CREATE TABLE t (a int, b int)",
		"CREATE TABLE u (a int, c int)",
		"INSERT INTO t VALUES (1, 10), (2, 20)",
	} {
		if err := s.ExecQuery(q); err != nil {
			t.Fatalf("%s: %v", q, err)
		}
	}

	// `a` is a column of t and of u. u is still empty.
	stmts := []string{
		"SELECT t.b FROM t JOIN u ON a = 1",                 // ON, inner
		"SELECT t.b FROM t LEFT JOIN u ON a = 1",            // ON, left: answers with both rows of t
		"SELECT t.b FROM u RIGHT JOIN t ON a = 1",           // ON, right
		"SELECT t.b FROM t JOIN u ON t.a = u.a WHERE a = 1", // WHERE
	}
	for _, q := range stmts {
		if err := s.ExecQuery(q); !errors.Is(err, storage.ErrFieldAmbiguous) {
			t.Errorf("u empty: %s\n\terror = %v, want %v", q, err, storage.ErrFieldAmbiguous)
		}
	}

	// control: the very same statements are rejected once u holds a row
	if err := s.ExecQuery("INSERT INTO u VALUES (1, 100)"); err != nil {
		t.Fatal(err)
	}
	for _, q := range stmts {
		if err := s.ExecQuery(q); !errors.Is(err, storage.ErrFieldAmbiguous) {
			t.Errorf("u not empty: %s\n\terror = %v, want %v", q, err, storage.ErrFieldAmbiguous)
		}
	}
}
