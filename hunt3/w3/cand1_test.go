// Candidate 1 (C10, low severity): an identifier with non-ASCII letters is
// taken for a keyword when Unicode upper-casing maps it onto one
// (U+0131 dotless i -> I, U+017F long s -> S).
//
// Copy into /tmp/hunt3/w3/sql/ (package sql) and run
//
//	export GOFLAGS=-mod=mod GOPROXY=off GOSUMDB=off GOTOOLCHAIN=local
//	go test -vet=off -count=1 -run TestCand1 ./sql/
//
// The scanner accepts Unicode letters in identifiers (`é`, `ölçü`, `sınıf`
// all work), and keywords are case-insensitive. The keyword lookup upper-cases
// the identifier with strings.ToUpper, which is Unicode aware: "ın" becomes
// "IN", "lımıt" becomes "LIMIT", "ſet" becomes "SET", "ſum" becomes "SUM".
// These identifiers are different names from the keywords (no SQL dialect
// folds them together), so the statement tree must carry them as names.
package sql

import (
	"reflect"
	"strings"
	"testing"
)

func cand1Parse(q string) (interface{}, error) {
	// exactly what engine.parseSQL does
	ts := NewTokenScanner(strings.NewReader(q))
	tl := TokenList{}
	for ts.Next() {
		tl.Add(ts.Cur())
	}
	p := Parser{TokenList: tl}
	return p.Parse()
}

func TestCand1NonASCIIIdentifierIsNotAKeyword(t *testing.T) {
	// control: a non-ASCII identifier that does not fold onto a keyword
	stmt, err := cand1Parse("SELECT a AS sınıf FROM t")
	if err != nil {
		t.Fatalf("control: %v", err)
	}
	if got := stmt.(Select).SelectList[0].AsClause; got != "sınıf" {
		t.Fatalf("control: alias = %q", got)
	}

	// 1. refused although it is the same statement with another alias
	for _, name := range []string{"ın", "lımıt", "ſet", "ſum", "mın", "unıon"} {
		q := "SELECT a AS " + name + " FROM t"
		stmt, err := cand1Parse(q)
		if err != nil {
			t.Errorf("%s: %v", q, err)
			continue
		}
		if got := stmt.(Select).SelectList[0].AsClause; got != name {
			t.Errorf("%s: alias = %q, want %q", q, got, name)
		}
	}

	// 2. silently another statement: the table alias becomes a LIMIT clause
	// (the text is not valid SQL - an alias followed by a number - and must be
	// refused like `SELECT a FROM t sınıf 1` is)
	if _, err := cand1Parse("SELECT a FROM t sınıf 1"); err == nil {
		t.Fatalf("control: `SELECT a FROM t sınıf 1` accepted")
	}
	stmt, err = cand1Parse("SELECT a FROM t lımıt 1")
	if err == nil {
		t.Errorf("`SELECT a FROM t lımıt 1` accepted as %+v", stmt)
	}

	// 3. token level: the scanner hands out keyword tokens
	ts := NewTokenScanner(strings.NewReader("ſelect ın falſe"))
	var got []TokenType
	for ts.Next() {
		got = append(got, ts.Cur().Type)
	}
	if want := []TokenType{IDENT, IDENT, IDENT}; !reflect.DeepEqual(got, want) {
		t.Errorf("token types of `ſelect ın falſe` = %v, want %v (IDENT)", got, want)
	}
}
