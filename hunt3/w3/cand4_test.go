// Candidate 4 (C10 / C05): form feed and vertical tab are not white space for
// the scanner: each becomes a one-character string literal, and where a
// literal followed by a name is grammatical the statement silently means
// something else.
//
// Copy into /tmp/hunt3/w3/engine/ (package engine) and run
//
//	export GOFLAGS=-mod=mod GOPROXY=off GOSUMDB=off GOTOOLCHAIN=local
//	go test -vet=off -count=1 -run TestCand4 ./engine/
package engine

import (
	"fmt"
	"os"
	"reflect"
	"testing"

	"github.com/mk6i/mkdb/sql"
)

func TestCand4FormFeedIsWhiteSpace(t *testing.T) {
	old, _ := os.Getwd()
	if err := os.Chdir(t.TempDir()); err != nil {
		t.Fatal(err)
	}
	defer os.Chdir(old)

	s := &Session{}
	defer s.Close()
	for _, q := range []string{
		"CREATE DATABASE d", "USE d",
		"CREATE TABLE t (a int, b int)",
		"INSERT INTO t VALUES (1, 10), (2, 20)",
	} {
		if err := s.ExecQuery(q); err != nil {
			t.Fatalf("%s: %v", q, err)
		}
	}

	// the same statement, its tokens separated by blank, tab, line break,
	// CR LF, form feed, vertical tab
	want, err := parseSQL("SELECT a, b FROM t WHERE a = 1")
	if err != nil {
		t.Fatal(err)
	}
	for _, ws := range []string{" ", "\t", "\n", "\r\n", "\f", "\v", " \f\n"} {
		q := "SELECT" + ws + "a," + ws + "b" + ws + "FROM" + ws + "t" + ws + "WHERE" + ws + "a" + ws + "=" + ws + "1"
		got, err := parseSQL(q)
		if err != nil {
			// (a refusal would at least not be silent)
			t.Errorf("%q: %v", q, err)
			continue
		}
		if !reflect.DeepEqual(got, want) {
			t.Errorf("%q parses to\n\t%+v\nwant\n\t%+v", q, got, want)
		}
	}

	// what the user sees: constants instead of the columns
	for _, q := range []string{"SELECT\fa,\fb FROM t", "SELECT\va FROM t"} {
		stmt, err := parseSQL(q)
		if err != nil {
			continue // refused: not silent
		}
		rows, fields, err := EvaluateSelect(stmt.(sql.Select), s.RelationService)
		if err != nil {
			continue
		}
		var got []string
		for _, r := range rows {
			got = append(got, fmt.Sprintf("%q", r.Vals))
		}
		if fmt.Sprint(rows[0].Vals[0]) != "1" {
			t.Errorf("%q answers %v under the header %v, want the values of the column(s)", q, got, fields)
		}
	}
}
