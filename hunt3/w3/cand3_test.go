// Candidate 3 (C05): rows with equal ORDER BY keys come back in a scrambled
// order as soon as the result has more than 12 rows, so that ORDER BY ...
// LIMIT/OFFSET keeps rows other than the first ones in insertion order.
//
// Copy into /tmp/hunt3/w3/engine/ (package engine) and run
//
//	export GOFLAGS=-mod=mod GOPROXY=off GOSUMDB=off GOTOOLCHAIN=local
//	go test -vet=off -count=1 -run TestCand3 ./engine/
//
// sortColumns uses sort.Slice, which is not stable. Go's implementation falls
// back to insertion sort for at most 12 elements, which IS stable: up to 12
// rows ties keep the insertion order, from 13 rows on they do not. (That is
// why small tables never show it.)
package engine

import (
	"fmt"
	"os"
	"strings"
	"testing"

	"github.com/mk6i/mkdb/sql"
)

func cand3Select(t *testing.T, s *Session, q string) [][2]int64 {
	stmt, err := parseSQL(q)
	if err != nil {
		t.Fatalf("%s: %v", q, err)
	}
	rows, _, err := EvaluateSelect(stmt.(sql.Select), s.RelationService)
	if err != nil {
		t.Fatalf("%s: %v", q, err)
	}
	var out [][2]int64
	for _, r := range rows {
		out = append(out, [2]int64{r.Vals[0].(int64), r.Vals[1].(int64)})
	}
	return out
}

func TestCand3OrderByTiesKeepInsertionOrder(t *testing.T) {
	old, _ := os.Getwd()
	if err := os.Chdir(t.TempDir()); err != nil {
		t.Fatal(err)
	}
	defer os.Chdir(old)

	s := &Session{}
	defer s.Close()
	for _, q := range []string{"CREATE DATABASE d", "USE d", "CREATE TABLE t (k int, seq int)"} {
		if err := s.ExecQuery(q); err != nil {
			t.Fatalf("%s: %v", q, err)
		}
	}

	for _, n := range []int{12, 13, 30} {
		if err := s.ExecQuery("DELETE FROM t"); err != nil {
			t.Fatal(err)
		}
		// seq is the insertion order, k has three values
		var vals []string
		var all [][2]int64
		for i := 0; i < n; i++ {
			vals = append(vals, fmt.Sprintf("(%d, %d)", i%3, i))
			all = append(all, [2]int64{int64(i % 3), int64(i)})
		}
		if err := s.ExecQuery("INSERT INTO t VALUES " + strings.Join(vals, ", ")); err != nil {
			t.Fatal(err)
		}
		// reference: the rows sorted by k, rows with the same k in insertion order
		var asc, desc [][2]int64
		for k := int64(0); k < 3; k++ {
			for _, r := range all {
				if r[0] == k {
					asc = append(asc, r)
				}
				if r[0] == 2-k {
					desc = append(desc, r)
				}
			}
		}

		if got := cand3Select(t, s, "SELECT k, seq FROM t"); fmt.Sprint(got) != fmt.Sprint(all) {
			t.Fatalf("n=%d: without ORDER BY\n got  %v\n want %v", n, got, all)
		}
		if got := cand3Select(t, s, "SELECT k, seq FROM t ORDER BY k"); fmt.Sprint(got) != fmt.Sprint(asc) {
			t.Errorf("n=%d: ORDER BY k\n got  %v\n want %v", n, got, asc)
		}
		if got := cand3Select(t, s, "SELECT k, seq FROM t ORDER BY k DESC"); fmt.Sprint(got) != fmt.Sprint(desc) {
			t.Errorf("n=%d: ORDER BY k DESC\n got  %v\n want %v", n, got, desc)
		}
		// which rows LIMIT keeps depends on it
		if got := cand3Select(t, s, "SELECT k, seq FROM t ORDER BY k LIMIT 3"); fmt.Sprint(got) != fmt.Sprint(asc[:3]) {
			t.Errorf("n=%d: ORDER BY k LIMIT 3\n got  %v\n want %v", n, got, asc[:3])
		}
		if got := cand3Select(t, s, "SELECT k, seq FROM t ORDER BY k LIMIT 2 OFFSET 1"); fmt.Sprint(got) != fmt.Sprint(asc[1:3]) {
			t.Errorf("n=%d: ORDER BY k LIMIT 2 OFFSET 1\n got  %v\n want %v", n, got, asc[1:3])
		}
	}
}
