// Candidate 1 (C20): statements that arrive as a bracketed paste never reach
// the engine - the console drops them and exits.
//
// Copy this file to cmd/console/cand1_test.go and run
//
//	export GOFLAGS=-mod=mod GOPROXY=off GOSUMDB=off GOTOOLCHAIN=local
//	go test -vet=off -count=1 -run TestCand1 -v ./cmd/console
//
// The test drives the real program loop (runTerminal, the function main()
// calls) over a pseudo terminal: fd 0 of the test process is pointed at the
// slave side of a pty for the duration of the test, the keystrokes are written
// to the master side. It is skipped where /dev/ptmx is not available (Linux
// only).
package main

import (
	"fmt"
	"os"
	"syscall"
	"testing"
	"time"
	"unsafe"

	"github.com/mk6i/mkdb/engine"
	"github.com/mk6i/mkdb/storage"
)

func cand1OpenPty(t *testing.T) (master, slave *os.File) {
	m, err := os.OpenFile("/dev/ptmx", os.O_RDWR, 0)
	if err != nil {
		t.Skipf("no pseudo terminal: %v", err)
	}
	var unlock int32
	if _, _, e := syscall.Syscall(syscall.SYS_IOCTL, m.Fd(), syscall.TIOCSPTLCK, uintptr(unsafe.Pointer(&unlock))); e != 0 {
		t.Skipf("unlockpt: %v", e)
	}
	var n uint32
	if _, _, e := syscall.Syscall(syscall.SYS_IOCTL, m.Fd(), syscall.TIOCGPTN, uintptr(unsafe.Pointer(&n))); e != 0 {
		t.Skipf("ptsname: %v", e)
	}
	s, err := os.OpenFile(fmt.Sprintf("/dev/pts/%d", n), os.O_RDWR|syscall.O_NOCTTY, 0)
	if err != nil {
		t.Skipf("open pty slave: %v", err)
	}
	return m, s
}

func cand1IsRaw(f *os.File) bool {
	var tio syscall.Termios
	if _, _, e := syscall.Syscall(syscall.SYS_IOCTL, f.Fd(), syscall.TCGETS, uintptr(unsafe.Pointer(&tio))); e != 0 {
		return false
	}
	return tio.Lflag&syscall.ICANON == 0
}

func cand1WaitFor(cond func() bool) bool {
	for i := 0; i < 300; i++ {
		if cond() {
			return true
		}
		time.Sleep(10 * time.Millisecond)
	}
	return cond()
}

func TestCand1PastedStatementsReachTheEngine(t *testing.T) {
	dir := t.TempDir()
	old, _ := os.Getwd()
	if err := os.Chdir(dir); err != nil {
		t.Fatal(err)
	}
	defer os.Chdir(old)
	if err := storage.InitStorage(); err != nil {
		t.Fatal(err)
	}

	master, slave := cand1OpenPty(t)
	defer master.Close()
	defer slave.Close()

	// runTerminal reads os.Stdin and switches fd 0 to raw mode
	saved, err := syscall.Dup(0)
	if err != nil {
		t.Fatal(err)
	}
	if err := syscall.Dup2(int(slave.Fd()), 0); err != nil {
		t.Fatal(err)
	}
	defer func() {
		syscall.Dup2(saved, 0)
		syscall.Close(saved)
	}()

	sess := &engine.Session{}
	defer sess.Close()

	returned := false
	done := make(chan error, 1)
	go func() { done <- runTerminal(sess) }()
	hasReturned := func() bool {
		if returned {
			return true
		}
		select {
		case err := <-done:
			returned = true
			t.Logf("runTerminal returned: %v", err)
		default:
		}
		return returned
	}
	exists := func(db string) bool {
		_, err := os.Stat("data/" + db + "/tbl")
		return err == nil
	}

	if !cand1WaitFor(func() bool { return cand1IsRaw(slave) }) {
		t.Fatal("runTerminal did not switch the terminal to raw mode")
	}

	// one statement pasted (the terminal brackets a paste with ESC[200~ and
	// ESC[201~ when bracketed paste mode is on), ...
	master.Write([]byte("\x1b[200~CREATE DATABASE pasted;\r\x1b[201~"))
	cand1WaitFor(func() bool { return exists("pasted") || hasReturned() })
	if hasReturned() {
		t.Errorf("the console ended after the paste")
	}
	if !exists("pasted") {
		t.Errorf("pasted statement CREATE DATABASE pasted; was not executed")
	}

	// ... one statement typed afterwards, ...
	if !hasReturned() {
		master.Write([]byte("CREATE DATABASE typed;\r"))
		cand1WaitFor(func() bool { return exists("typed") || hasReturned() })
	}
	if !exists("typed") {
		t.Errorf("typed statement CREATE DATABASE typed; was not executed")
	}

	// ... and ^D on an empty line ends the console
	if !hasReturned() {
		master.Write([]byte{4})
		if !cand1WaitFor(hasReturned) {
			t.Fatal("runTerminal did not return after ^D")
		}
	}
}
