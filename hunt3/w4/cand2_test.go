// Candidate 2 (C19): csvimport crashes on a column mapping or separator it
// cannot use instead of reporting it: more -src-cols than -dest-cols, a
// negative source index, an empty -separator. No record is reported, the
// database is not closed.
//
// Copy this file to cmd/csvimport/cand2_test.go and run
//
//	export GOFLAGS=-mod=mod GOPROXY=off GOSUMDB=off GOTOOLCHAIN=local
//	go test -vet=off -count=1 -run TestCand2 -v ./cmd/csvimport
//
// The test runs the program's own main(): it starts the test binary a second
// time with the csvimport arguments (TestCand2HelperMain), the CSV on stdin
// and a fresh temp directory as working directory.
package main

import (
	"bytes"
	"os"
	"os/exec"
	"strings"
	"testing"

	"github.com/mk6i/mkdb/engine"
	"github.com/mk6i/mkdb/storage"
)

// TestCand2HelperMain is csvimport itself when started by cand2Run.
func TestCand2HelperMain(t *testing.T) {
	if os.Getenv("CAND2_HELPER") != "1" {
		t.Skip("helper process of TestCand2*")
	}
	os.Args = append([]string{"csvimport"}, strings.Split(os.Getenv("CAND2_ARGS"), "\x1f")...)
	main()
	os.Exit(0)
}

func cand2Run(dir, stdin string, args ...string) (string, error) {
	cmd := exec.Command(os.Args[0], "-test.run=TestCand2HelperMain")
	cmd.Dir = dir
	cmd.Env = append(os.Environ(), "CAND2_HELPER=1", "CAND2_ARGS="+strings.Join(args, "\x1f"))
	cmd.Stdin = strings.NewReader(stdin)
	var out bytes.Buffer
	cmd.Stdout = &out
	cmd.Stderr = &out
	err := cmd.Run()
	return out.String(), err
}

func TestCand2BadMappingIsReportedNotACrash(t *testing.T) {
	cases := []struct {
		name string
		args []string
	}{
		{"more source columns than destination columns",
			[]string{"-db", "d", "-table", "t", "-src-cols", "0,1", "-dest-cols", "a"}},
		{"negative source index",
			[]string{"-db", "d", "-table", "t", "-src-cols", "-1,1", "-dest-cols", "a,b"}},
		{"empty separator",
			[]string{"-db", "d", "-table", "t", "-src-cols", "0,1", "-dest-cols", "a,b", "-separator", ""}},
	}
	for _, c := range cases {
		t.Run(c.name, func(t *testing.T) {
			dir := t.TempDir()
			old, _ := os.Getwd()
			if err := os.Chdir(dir); err != nil {
				t.Fatal(err)
			}
			defer os.Chdir(old)
			if err := storage.InitStorage(); err != nil {
				t.Fatal(err)
			}
			s := &engine.Session{}
			for _, q := range []string{"CREATE DATABASE d", "USE d", "CREATE TABLE t (a INT, b VARCHAR(10))"} {
				if err := s.ExecQuery(q); err != nil {
					t.Fatalf("%s: %v", q, err)
				}
			}
			s.Close()

			out, err := cand2Run(dir, "1,x\n2,y\n", c.args...)
			if i := strings.Index(out, "panic:"); i >= 0 {
				end := i + 300
				if end > len(out) {
					end = len(out)
				}
				t.Errorf("csvimport crashed (%v):\n%s", err, out[i:end])
			}
		})
	}
}
